#!/usr/bin/env python3
"""Run a seeded change against the checks:  tools/seedtest.py <dir with patch.diff [demo.py]> C01 [C04 ...]
Applies the patch to /repo, runs the baseline test-suite, the demonstration and the named quick
checks (evidence and replays go to a scratch directory), then reverts /repo."""
import json, os, subprocess, sys, tempfile, shutil

def sh(cmd, **kw):
    return subprocess.run(cmd, shell=True, capture_output=True, text=True, **kw)

def main_scratch(d, checks):
    """Same procedure on a scratch copy of /repo's HEAD (does not touch /repo): used while a background run
    is reading /repo."""
    patch = os.path.join(d, "patch.diff")
    out = {"dir": d, "checks": {}, "scratch_tree": True}
    scratch = tempfile.mkdtemp(prefix="pv-seed-")
    tree = os.path.join(scratch, "tree")
    os.makedirs(tree)
    try:
        sh("git -C /repo archive HEAD | tar -x -C %s" % tree)
        demo = os.path.join(d, "demo.py")
        if os.path.exists(demo):
            r = sh("cd %s && PYTHONPATH=%s /venv/bin/python %s" % (scratch, tree, demo), timeout=600)
            out["demo_without_change"] = r.returncode
        r = sh("git apply --whitespace=nowarn %s" % patch, cwd=tree)
        if r.returncode:
            print("patch does not apply:", r.stderr); return 2
        t = sh("cd %s && /venv/bin/python -m pytest -q -p no:cacheprovider --timeout=900 2>&1 | tail -3" % tree)
        out["tests"] = t.stdout.strip().splitlines()[-2:] if t.stdout.strip() else []
        out["tests_pass"] = "75 passed" in t.stdout and "failed" not in t.stdout
        if os.path.exists(demo):
            r = sh("cd %s && PYTHONPATH=%s /venv/bin/python %s" % (scratch, tree, demo), timeout=600)
            out["demo_with_change"] = r.returncode
        env = dict(os.environ, PYSNARK_TREE=tree, VERIF_EVIDENCE_DIR=os.path.join(scratch, "ev"), VERIF_REPLAY_DIR=os.path.join(scratch, "rp"))
        for c in checks:
            tier = "quick"
            if ":" in c:
                c, tier = c.split(":")
            r = sh("cd /verif && ./check %s --tier %s" % (c, tier), env=env)
            viol = [ln for ln in r.stdout.splitlines() if ln.startswith("VIOLATION")]
            what = [ln.strip()[:300] for ln in r.stdout.splitlines() if ln.strip().startswith("what:")]
            out["checks"][c + ":" + tier] = {"exit": r.returncode, "violations": len(viol), "first": what[:2],
                                             "harness_error": "HARNESS-ERROR" in r.stdout}
    finally:
        shutil.rmtree(scratch, True)
    print(json.dumps(out, indent=1))
    return 0


def main():
    if sys.argv[1] == "--scratch":
        return main_scratch(os.path.abspath(sys.argv[2]), sys.argv[3:])
    d = os.path.abspath(sys.argv[1]); checks = sys.argv[2:]
    patch = os.path.join(d, "patch.diff")
    st = sh("git -C /repo status --porcelain --untracked-files=no").stdout.strip()
    if st:
        print("REFUSING: /repo has local changes:\n" + st); return 2
    out = {"dir": d, "checks": {}}
    scratch = tempfile.mkdtemp(prefix="pv-seed-")
    try:
        r = sh("git -C /repo apply --whitespace=nowarn %s" % patch)
        if r.returncode:
            print("patch does not apply:", r.stderr); return 2
        t = sh("cd /repo && /venv/bin/python -m pytest -q -p no:cacheprovider --timeout=900 2>&1 | tail -3")
        out["tests"] = t.stdout.strip().splitlines()[-2:] if t.stdout.strip() else []
        out["tests_pass"] = "75 passed" in t.stdout and "failed" not in t.stdout
        demo = os.path.join(d, "demo.py")
        if os.path.exists(demo):
            r = sh("cd %s && PYTHONPATH=/repo /venv/bin/python %s" % (scratch, demo), timeout=600)
            out["demo_with_change"] = r.returncode
        env = dict(os.environ, VERIF_EVIDENCE_DIR=os.path.join(scratch, "ev"), VERIF_REPLAY_DIR=os.path.join(scratch, "rp"))
        for c in checks:
            tier = "quick"
            if ":" in c:
                c, tier = c.split(":")
            r = sh("cd /verif && ./check %s --tier %s" % (c, tier), env=env)
            viol = [ln for ln in r.stdout.splitlines() if ln.startswith("VIOLATION")]
            what = [ln.strip()[:300] for ln in r.stdout.splitlines() if ln.strip().startswith("what:")]
            out["checks"][c + ":" + tier] = {"exit": r.returncode, "violations": len(viol), "first": what[:2],
                                             "harness_error": "HARNESS-ERROR" in r.stdout}
    finally:
        sh("git -C /repo checkout -- .")
        shutil.rmtree(scratch, True)
    demo = os.path.join(d, "demo.py")
    if os.path.exists(demo):
        s2 = tempfile.mkdtemp(prefix="pv-seed-")
        r = sh("cd %s && PYTHONPATH=/repo /venv/bin/python %s" % (s2, demo), timeout=600)
        out["demo_without_change"] = r.returncode
        shutil.rmtree(s2, True)
    print(json.dumps(out, indent=1))
    return 0

if __name__ == "__main__":
    sys.exit(main())
