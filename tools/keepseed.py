#!/usr/bin/env python3
"""tools/keepseed.py <seed id> <source dir> <property> "<what it needs to manifest>" CHECK [CHECK...]
Copies patch.diff / demo.py / notes.md into /verif/seeded/<id>/, runs tools/seedtest.py and records
the outcome in meta.json."""
import json, os, shutil, subprocess, sys
sid, src, prop, needs = sys.argv[1:5]
checks = sys.argv[5:]
dst = os.path.join("/verif/seeded", sid)
os.makedirs(dst, exist_ok=True)
for f in ("patch.diff", "demo.py", "notes.md"):
    p = os.path.join(src, f)
    if os.path.exists(p) and os.path.abspath(p) != os.path.abspath(os.path.join(dst, f)):
        shutil.copy(p, os.path.join(dst, f))
# demonstrations must test the tree on PYTHONPATH, not the directory they were written in
dp = os.path.join(dst, "demo.py")
if os.path.exists(dp):
    s = open(dp).read()
    if "ROOT = os.path.dirname(os.path.dirname(os.path.abspath(__file__)))" in s:
        s = s.replace("ROOT = os.path.dirname(os.path.dirname(os.path.abspath(__file__)))",
                      "ROOT = (os.environ.get('PYTHONPATH') or os.path.dirname(os.path.dirname(os.path.abspath(__file__)))).split(os.pathsep)[0]")
        open(dp, "w").write(s)
scratch = ["--scratch"] if os.environ.get("SEED_SCRATCH") else []
r = subprocess.run([sys.executable, "/verif/tools/seedtest.py"] + scratch + [dst] + checks, capture_output=True, text=True)
res = json.loads(r.stdout)
meta = {"id": sid, "breaks_property": prop, "needs_to_manifest": needs,
        "source": "independent sub-agent given only the property text and a scratch worktree" if sid.startswith("agent") else "written by the harness author from the mutant list in DESIGN.md",
        "ran": ("tools/seedtest.py --scratch: scratch copy of /repo HEAD (git archive); demo.py; git apply patch.diff; baseline pytest; demo.py; quick checks %s with PYSNARK_TREE=<copy>" % checks) if scratch else
               ("tools/seedtest.py: git -C /repo apply patch.diff; baseline pytest; demo.py; quick checks %s; git -C /repo checkout -- .; demo.py again" % checks),
        "baseline_tests_pass_with_change": res.get("tests_pass"), "tests_tail": res.get("tests"),
        "demo_exit_with_change": res.get("demo_with_change"), "demo_exit_without_change": res.get("demo_without_change"),
        "checks": res.get("checks")}
meta["detected_by"] = sorted(k for k, v in res["checks"].items() if v["exit"] == 1 and v["violations"] > 0)
json.dump(meta, open(os.path.join(dst, "meta.json"), "w"), indent=1)
print(sid, "tests", meta["baseline_tests_pass_with_change"], "demo", meta["demo_exit_with_change"], meta["demo_exit_without_change"], "detected_by", meta["detected_by"])
