#!/venv/bin/python
"""Offline setup: nothing to build (pure Python); verifies the interpreter, the tree and the shims."""
import os, subprocess, sys
here = os.path.dirname(os.path.dirname(os.path.abspath(__file__)))
for d in ("evidence", "replays"):
    os.makedirs(os.path.join(here, d), exist_ok=True)
for root, dirs, files in os.walk(os.path.join(here, "pv", "shims")):
    for f in files:
        if "qaptools_bin" in root:
            os.chmod(os.path.join(root, f), 0o755)
os.chmod(os.path.join(here, "check"), 0o755)
r = subprocess.run([sys.executable, "-c", "import pysnark, os; print(os.path.dirname(pysnark.__file__))"],
                   capture_output=True, text=True, env=dict(os.environ, PYSNARK_BACKEND="nobackend"))
print("pysnark at", r.stdout.strip() or r.stderr.strip()[-200:])
sys.exit(0 if r.returncode == 0 else 1)
