#!/usr/bin/env python3
"""Regenerates the seeded-change table of DESIGN.md section 10 from seeded/*/meta.json."""
import glob, json, re
rows = []
for d in sorted(glob.glob('/verif/seeded/*/meta.json')):
    m = json.load(open(d))
    rows.append((m['id'], m['breaks_property'], m['needs_to_manifest'], ", ".join(x.split(':')[0] for x in m['detected_by']),
                 "yes" if m.get('initially_missed') else ""))
tbl = "| seeded change | breaks | needs, in order to manifest | caught by | missed at first |\n|---|---|---|---|---|\n"
for r in rows:
    tbl += "| `%s` | %s | %s | %s | %s |\n" % r
s = open('/verif/DESIGN.md').read()
a = s.index("| seeded change | breaks |")
b = s.index("**What the misses taught")
s = s[:a] + tbl + "\n" + s[b:]
open('/verif/DESIGN.md', 'w').write(s)
n = len(rows); missed = sum(1 for r in rows if r[4])
print(n, "seeded changes,", missed, "missed at first")
