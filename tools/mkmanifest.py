#!/usr/bin/env python3
"""Generates /verif/MANIFEST.json from the table below (keeps it schema-valid at all times)."""
import json
import os

HERE = os.path.dirname(os.path.dirname(os.path.abspath(__file__)))

CHECKS = {
 "C01": dict(cat="model_checking", design="3/C01, 2.2",
    technique="explicit enumeration of operation sequences x inputs x modes on the real code (E1), state invariant after every API call",
    text="Every depth-1 program (operator x operand kinds) on every input vector of the complete interval D(n) for bitlength 2,3 and a boundary lattice for 4/8/16, in plain / true-guard / false-guard modes, over the real scalar fields, plus fixed-point operands, a huge-value lattice (machine-word and field boundaries), depth-2 compositions (every operator as inner operation) and a breadth-first search over operation SEQUENCES to depth 3 (4 thorough) with state merging, mode switches, guarded regions and aborted calls; after every API call all newly emitted constraints are evaluated on the recorded witness. The depth-1 sweep (complete D(2), D(3) thorough, and the huge-value lattice of the backend's own field, i.e. multiples and neighbours of p) is repeated against the REAL snarkjs and zkinterface / bellman / bulletproofs backend modules (their own linear-combination classes, field inverse and modulus). Exhaustive within these bounds; a hint computed wrongly for any operator/kind/mode/boundary value inside the bound is found.",
    note="Trusts the recording backend (validated against pysnark.snarkjsbackend's own trace), Python integer arithmetic, and that inputs outside the explored intervals behave like the boundary lattice."),
 "C04": dict(cat="model_checking", design="3/C04, 2.2",
    technique="explicit enumeration of operation sequences x inputs x modes on the real code (E1), value==wire invariant at every returned object",
    text="Same enumeration as C01 (incl. fixed-point operands, recomposition from_bits of arbitrary entries, huge values, depth-2, the depth-3/4 sequence search and the sweep on the four REAL backend modules) in all four modes (checked, ignore_errors, true guard, false guard); for every secret reachable from every returned object the reported value must be congruent mod p to its linear combination evaluated on the recorded witness.",
    note="Same trusted base as C01."),
 "C05": dict(cat="model_checking", design="3/C05, 2.2",
    technique="explicit enumeration of operation sequences x inputs on the real code (E1), differential against a plain-Python reference model at every step",
    text="Every depth-1 program over integer and boolean secrets (all operators, three operand-kind combinations incl. every reflected method, boolean combinations) on all input vectors of D(2), D(3) and boundary lattices for 4/8/16 bits, plus a huge-value lattice, depth-2 compositions on D(2) and the depth-3/4 sequence search (with a differential oracle: two histories reaching the same canonical state must have identical futures): the value returned by every API call equals the reference model's (plain int arithmetic) or the call raises; inside the narrowest reading of the documented domain a raise is a violation.",
    note="Reference model pv/ops.py (Python int semantics); integer ~ is excluded from the equality oracle (documented n-bit complement); boolean-typed operand combinations that the API does not offer at all are skipped and listed in the evidence."),
 "C02": dict(cat="model_checking", design="3/C02, 2.3",
    technique="exhaustive enumeration of the adversarial prover's witness space per gadget instance (exact enumeration in the real field, cross-validated against brute force in small fields)",
    text="For every value-returning program (all operators x secret/secret, secret/const, const/secret, unary, selection, boolean combinations, fixed-point operands, secret-index array read/write, 7 depth-2 compositions) and every operand vector of D(n) on which the honest run completes, the operands are pinned and ALL satisfying assignments of the variables the call introduced are enumerated in the real scalar field (bn128 and a second field; bitlength 2-3 quick, 2-4 x three fields thorough), and at bitlength 17 (quick) / 8, 16, 17, 33, 65 (thorough) on a boundary lattice of operand values (the engine solves bit decompositions jointly by an exact weighted-sum rule, so no 2^w branching). Every result wire must take the honest value in every solution and must not depend on a free variable. The same instances are repeated after a history in which the same call on the same operand OBJECTS first ran inside an untaken branch (history-dependent soundness). The enumerating engine is validated on every run: on the same systems traced over small primes its solution sets must equal those of plain brute force over F_p.",
    note="Alarm only with a concrete real-field witness re-verified against all recorded constraints. Complete operand intervals only for bitlengths 2..4; wider bitlengths on boundary lattices, with the second operand of division / shift / power kept small. Two genuine defects are listed as known findings with discriminating predicates."),
 "C03": dict(cat="model_checking", design="3/C03, 2.3",
    technique="exhaustive enumeration of witness spaces (exact real-field engine) over all operand vectors of a bounded domain, compared with the run-time check and the documented relation",
    text="For every assertion/declaration kind (six comparisons x 5 operand-kind combinations incl. boolean receiver with integer-secret argument, zero/nonzero/positive, explicit widths 0..n+1 for assert_positive and to_bits, range, boolean declarations through four constructors, PackIntMod.unpack) and every operand vector of D(n), plus boundary lattices at bitlength 17 (quick) / 8, 16, 17, 33, 64 (thorough): satisfiable (all witness choices enumerated; on the system of an unchecked run and on the system of an accepted run re-pinned to the vector) must equal accepted-by-the-checked-call, accepted implies the documented relation, and relation-within-width implies accepted.",
    note="Real fields only (small fields wrap around the value domain and are not used for verdicts). Relies on pv.witness.exact, which C02 cross-validates against brute force on every run."),
 "C06": dict(cat="model_checking", design="3/C06, 2.1",
    technique="stateless exhaustive enumeration of programs x all input vectors x modes on the real code, canonical-trace comparison; recorder validated by replaying the same executions against pysnark.snarkjsbackend",
    text="Every depth-1 program (incl. public-input operands, assertions, selection) and depth-2 composition is run on ALL input vectors of D(n), checked and with ignore_errors (valid and invalid inputs), under guard 0 and guard 1, and under two nested secret guards (00/01/10/11); per program, public literals and mode class all completed runs must have one canonical trace (variable kinds in order, constraints in order with coefficients mod p, result wire expressions). The same explorer is also run in a fresh process against the unmodified snarkjs backend: 35k executions must give traces identical to the recorder's.",
    note="Public integer literals are part of the program text (they are folded into coefficients), public/ private *inputs* are varied. Block constructs, arrays, packing and hashes have their trace-independence oracle in C09, C15, C16, C20."),
 "C07": dict(cat="model_checking", design="3/C07, 2.2-2.3",
    technique="exhaustive enumeration of guarded bodies x operand vectors (valid and invalid) x 12 guard realisations on the real code, plus witness-space enumeration of the enclosing selection",
    text="Every depth-1 program (and depth-2 composition) as a guarded body on every operand vector of D(n), under integer- and boolean-typed guards 0/1, two nested guards (4 combinations) and the lazily evaluated then-/else-branch of if_then_else: effective guard 0 => no value-caused exception, whole system satisfied by the recorded witness, value==wire, selection returns the other branch and (all prover choices enumerated) is uniquely that; effective guard 1 => same value or same exception class as unguarded, and the same set of provable results with and without ignore_errors.",
    note="A raise under a false guard is skipped only if it is value-independent (the group never completes unguarded and every vector raises the same class under that guard: invalid public literal or an operation the operand types do not offer). Witness-space part at bitlength 2 (quick) / 2-3 (thorough)."),
 "C08": dict(cat="model_checking", design="3/C08, 2.4",
    technique="exhaustive enumeration of guard/branch histories (well-nested event trees) executed on the real code in six realisations, state compared with a reference stack model after every event",
    text="All well-nested histories up to event cost 7 (quick) / 8 (thorough) and nesting depth 3 over the events enter (8 kinds of condition: boolean/integer-typed secret 0/1, public 1, and the refused ones public 0, secret 2, wrong type), leave, API op, user exception, value error, try/except; each realised as guarded(c)(f)(), as lazily evaluated then-/else-branch of if_then_else, and as _if / _else / _elif / _while / _range blocks. After every event: the triple (guard, ignore_errors, LinComb.ONE) is identical to the one before the matching enter on every exit path, a refused enter changes nothing, inside regions guard value and wire equal the product of the enclosing conditions, is_guard()/ignore_errors() agree with it and constants evaluate to k*guard.",
    note="An exception escaping a block-API region without its closing call gives the library no event to act on and is outside what the API can express (such histories are skipped for the block realisations and counted)."),
 "C09": dict(cat="model_checking", design="3/C09, 2.5",
    technique="exhaustive enumeration of generated block programs x all inputs of a small domain, each executed against a native-control-flow twin emitted from the same AST",
    text="Every program of the grammar assign | if/elif/else | while+breakif | for _range(secret stop, public max) incl. the two-argument form with a public start | lazily evaluated selection; scalar variables, a list-valued variable modified in place, and variables that start as a plain int / float constant and are assigned integer / fixed-point secrets inside blocks (5 secret conditions, loop maxima 2-3, nesting 1 quick / 2 thorough, with explicit ctx= and with local-variable context lookup) is exec-ed twice (oblivious API on secrets, native Python on ints) on all (x,y) in {0..3}^2 (thorough: {-2..4}^2) x b x stop in 0..max: final values equal, recorder satisfied, value==wire, one canonical trace per program over all inputs, guard state clean and block stack empty, stop > max refused under checkstopmax.",
    note="Public loop bounds/conditions are not in the statement's scope. Twin evaluations that divide by a negative number are skipped (known finding KF-C05-negdiv)."),
 "C10": dict(cat="model_checking", design="3/C10, 2.6",
    technique="exhaustive enumeration of backend-API call sequences (variables x value classes x constraint shapes) on pysnark.snarkjsbackend, files read back by an independent decoder",
    text="All traces of the bounded alphabet (0..3 variable declarations x public/private x 11 value classes incl. negative, >= p and > 256-bit values; 0..2 constraints whose sides range over a menu of up to 13 linear combinations incl. zero coefficients, cancelled terms and empty combinations; ~1.2e5 traces quick, 4e6 thorough) plus every E1 depth-1 program traced through the real backend are serialised by the backend's own prove() and decoded from the iden3 format specification: well-formedness (magic, version, section table, sizes, no trailing bytes, canonical field elements), header counts, decoded system == traced system under the documented wire numbering, decoded witness == traced values mod p, decoded witness satisfies decoded constraints.",
    note="nLabels (written as 0) is not treated as a count of file content; the wire-to-label section must have nWires entries."),
 "C11": dict(cat="model_checking", design="3/C11, 2.6",
    technique="exhaustive enumeration of backend-API call sequences on the three zkinterface backends, files decoded by a hand-written FlatBuffers/zkinterface decoder",
    text="Same trace alphabet as C10 on pysnark.zkinterface.backend (bn128), backendbellman (bls12-381) and backendbulletproofs (curve25519 order): each file is a sequence of size-prefixed messages and nothing else; header ids 1..npub with canonical values of ceil(bits(p)/8) bytes, free_variable_id, field_maximum = p-1; constraint message == traced constraints; witness ids npub+1..npub+npriv; decoded assignment satisfies decoded constraints; circuit.zkif has no Witness message and is byte-identical across traces differing only in private values.",
    note="Decided modulo the FlatBuffers library: the package is absent from the image, a wire-faithful shim of flatbuffers.Builder (pv/shims/fb) is used; the decoder is written independently from zkinterface.fbs."),
 "C12": dict(cat="model_checking", design="3/C12, 2.6",
    technique="exhaustive enumeration of flat traces and of @subqap call histories on pysnark.qaptools.backend (failing tool stubs), files read back by an independent reader",
    text="Flat traces (negative / >= p / > 256-bit values, zero and cancelled coefficients) and all call histories of two sub-circuit functions with bodies from a menu of 7 (incl. compound, constant, multiple results and nested calls) x call sequences up to length 3 (4 thorough) x input classes x argument forms (bare wires, two-term combinations, scaled wires, single wires that still carry a cancelled or zero-scaled other wire): every equation holds mod p on the wire/io files, public values are linked, the per-function files written by the backend's own prove() contain every traced equation in its context, same-named calls have equal equation sets and digests (an inconsistently defined function is reported), distinct equation sets have distinct digests over everything explored, every call has a glue whose paired blocks list all arguments and results in order with equal values and equal rnd1. A sample of histories is replayed in fresh interpreters and must give the same verdicts.",
    note="The external qaptools executables are replaced by failing stubs; only what pysnark itself writes is checked."),
 "C13": dict(cat="model_checking", design="3/C13",
    technique="exhaustive enumeration of expression trees on each backend's own linear-combination class, linear form compared with the field expression, operands re-inspected after every operation",
    text="All expression trees of depth <= 2 over leaves zero/one/v1/v2/shared objects with + - neg and scaling by 0,1,-1,2,p-1,p,p+1,-(p+2),2^300 (evaluated on 16 assignments over {0,1,2,p-1}^2), and every unary / leaf-binary operator on the depth-2 trees, on snarkjs, the three zkinterface variants, qaptools' Sig and the recorder (control): each node's linear form mod p equals the field expression and no operand (incl. the shared one()) is altered. get_modulus() equals the tabulated scalar-field order and passes a harness-side Baillie-PSW test; fieldinverse(a)*a = 1 mod p for 30 arguments (negative, unreduced, huge) and raises for a = 0 mod p.",
    note="libsnark's class is implemented in an absent C++ extension and nobackend is a documented no-op; both are excluded."),
 "C14": dict(cat="model_checking", design="3/C14",
    technique="exhaustive enumeration of fixed-point programs (operators x ordered operand-kind pairs x all representable values of a small interval x resolutions x bitlengths) on the real code, differential against a Fraction reference",
    text="13 binary operators and 6 assertions x every ordered pair of operand kinds over {fixed-point secret, integer secret, boolean secret, int, float} with at least one fixed-point operand x ALL multiples of 2^-r in [-2-2^-r, 2+2^-r] (thorough: [-4,4]) x resolutions 0..3 x two bitlengths x three fields: the result's representation integer equals exact scaled-integer arithmetic (floor(a*b/2^r), floor(a*2^r/b), Python // and % on the represented numbers, order for comparisons) or the call raises; neg/pos/val()/constructors/assert_range and x ** k for k = 0..3 (compared modulo p); plus the C01/C04 invariants at every step.",
    note="<< , >> and abs are not in the statement's list and are only covered by the completeness/value-wire invariants. Reference: fractions.Fraction."),
 "C15": dict(cat="model_checking", design="3/C15",
    technique="breadth-first search over array access histories on the real code with state de-duplication, compared with a Python list model after every event; witness-space enumeration for uniqueness",
    text="Arrays 1-D length 1..4 and 2-D 2x2/2x3 with constant / secret / mixed contents; events read and write (constant or secret value) at every index of [-1, len] with secret and public indices (all four combinations for 2-D), and for 2-D a secretly read row stored into two other rows (rows must not alias afterwards); all histories to depth 3 (thorough 4; 2-D 2/3) pruned on canonical contents: read values and contents equal the list model, out-of-range raises IndexError, recorder satisfied, value==wire; one canonical trace per history shape over all in-range index tuples; (exact engine, 1-D and 2-D, contents deliberately not affine in the position) with contents and index pinned the read result and every element after a write are unique, and with error checking off an out-of-range index is unsatisfiable - also after a history in which the same index object was first used in an untaken branch.",
    note="Merging states with equal contents and element types is sound because the library's array operations read only values, types and lengths."),
 "C16": dict(cat="model_checking", design="3/C16",
    technique="exhaustive enumeration of widths x bitlengths x values and of packer schemas x all schema values on the real code, plus witness-space enumeration of the enforced width",
    text="to_bits(w)/from_bits round trip, assert_positive(w), check_positive(w) for every width 0..6 with global bitlength 3/4/6 on every value of [-2, 2^w+1], also after an earlier decomposition of the same object at another width and inside one / two taken branches; widths 8..253 and global bitlengths 16/20/40 (thorough up to 128, three fields) on a boundary lattice (value level and enforced width); with error checking off and all witness choices enumerated the system is satisfiable exactly for 0 <= v < 2^w (check_positive: result forced to the sign). Packing: every schema of the grammar Bool | IntMod(1..5) | List(0..2 items) | Repeat(s, 0..2) to depth 2 x ALL values x {plain, integer-typed secret, boolean-typed secret}: unpack(pack(v)) == v, bitlen() == number of bits, out-of-range plain values rejected.",
    note="Schemas with more than 64 values are not enumerated."),
 "C17": dict(cat="model_checking", design="3/C17",
    technique="exhaustive enumeration of argument/return structures x bodies x call sequences on the real code with the recording backend; witness-space enumeration for the output ties",
    text="21 argument shapes (scalars int/bool/float/str/None/secret, nested lists, tuples and dicts to depth 2, empty containers) alone and in pairs x 8 bodies (identity, product, comparisons, constant, mixed structure with plain members and unsorted dict keys, equal wires, ONE wire object published three times, the shared constant) x call sequences of length 1..3 in one run: the ordered list of public variables created by each call equals flatten(numeric arguments) ++ flatten(secret results), nothing else becomes public, the returned structure equals the undecorated function on plain values, every output variable is uniquely determined by the computed wire (all witness choices enumerated), keyword arguments raise ValueError without creating anything.",
    note="Bodies avoid division so that the known quotient finding does not interfere with the uniqueness oracle."),
 "C18": dict(cat="model_checking", design="3/C18, 2.7",
    technique="exhaustive enumeration of termination points (statement position x way of terminating x earlier caught event x autoprove x backend), one fresh interpreter each, compared with a reference function",
    text="Script template with three tracing statements, stopped before statement 0..3 in 16 ways (fall off the end, sys.exit with no argument/None/0/False/1/2/str/empty str/empty list, uncaught ValueError, KeyboardInterrupt, raise SystemExit(0/1), builtin exit(0/1)), after no / a caught sys.exit(1) / a caught sys.exit(0) / a caught exception, with autoprove on and off, with and without an exception hook installed by the environment before pysnark is imported, for snarkjs, zkinterface, zkifbellman, qaptools (failing tool stubs) and nobackend: exit status 0 and autoprove => prove() ran exactly once and the decoded artefacts hold exactly the executed statements; otherwise prove() did not run and no artefact exists; the exit hook itself never raises.",
    note="prove() is counted by wrapping backend.prove inside the child script (no change to pysnark). Two genuine defects of the interposition are listed as known findings keyed on the termination mode / caught event."),
 "C19": dict(cat="model_checking", design="3/C19, 2.7",
    technique="exhaustive enumeration of configurations (environment value x pre-imported modules and import order x dependency availability), one fresh interpreter each, compared with a reference selection function",
    text="PYSNARK_BACKEND in {unset, the 8 registry names, 'bogus', '', 7 near misses of known names} x pre-imports in {none, each registry module, 9 pairs in both orders: same and different packages, base and derived modules} x {FlatBuffers, qaptools executables, libsnark extension} each present or absent: the selected name is the pre-imported backend (for two: the first loaded in the documented order, a derived module over its base), else the named one (or import fails loudly when it cannot be loaded), else an 'unknown backend' message followed by the first loadable backend in registry order; backend_name identifies the module in effect, the field (get_modulus) and the module that actually receives a probe constraint; the selected backend offers the complete interface.",
    note="libsnark is a stub extension (loadability only); FlatBuffers availability = builder shim on PYTHONPATH or not."),
 "C20": dict(cat="model_checking", design="3/C20",
    technique="exhaustive enumeration of a bounded input space for the hash gadgets on the real code (three fields), differential against an independent plain-integer implementation; parameter selection by process-level enumeration",
    text="Per field: Poseidon permutation on all states over {0,1,2,p-1}^5 with at most two non-zero entries plus the published input (published x5_254_5 / x5_255_5 vectors reproduced), sponge on all messages of length 0..3 over {0,1,p-1} and longer bit patterns up to 3 blocks with integer-, boolean- and fixed-point-typed inputs, equal constraint counts for equal shapes, completeness and value==wire; padding injectivity on the real padding code for ALL messages up to 9 elements over {0,1}; subset-sum hash on all bit vectors up to length 8 (10) in plain / integer-typed / boolean-typed / mixed form against an independent SHA-512 coefficient derivation; a sub-family of the permutation / sponge / subset-sum instances again on the REAL zkinterface backend modules of the three fields; in fresh interpreters, for every way of selecting each backend the parameter table in effect is the one registered for runtime.backend_name or the import fails loudly.",
    note="Reference implementation pv/ref_poseidon.py uses the same constant tables (their derivation is not re-checked; the published vectors pin two of the three)."),
}

NOT_YET = {}


def main():
    checks = []
    for pid in sorted(CHECKS):
        c = CHECKS[pid]
        checks.append({
            "property_id": pid,
            "quick_cmd": "./check %s --tier quick" % pid,
            "thorough_cmd": "./check %s --tier thorough" % pid,
            "evidence_file": "/verif/evidence/%s.json" % pid,
            "replay_cmd_template": "./check %s --replay {path}" % pid,
            "engine": c.get("engine", "pv"),
            "level_claimed": {"category": c["cat"], "text": c["text"], "design_ref": c["design"]},
            "level_note": c["note"],
            "technique": c["technique"],
        })
    props = [json.loads(l)["id"] for l in open(os.path.join(HERE, "properties.jsonl"))]
    na = [{"property_id": p, "reason": NOT_YET.get(p, "check not built yet in this revision (work in progress; see DESIGN.md section 8)")}
          for p in props if p not in CHECKS]
    man = {
        "version": 1,
        "setup_cmd": "/venv/bin/python tools/setup.py",
        "hooks": {
            "guard": "PYSNARK_VERIF",
            "enable": "none needed: the recording backend is injected through sys.modules under one of pysnark.runtime's own registry names before pysnark is imported; no source hook exists in /repo",
            "baseline_off_cmd": "cd /repo && /venv/bin/python -m pytest -ra -q -p no:cacheprovider --timeout=900 --continue-on-collection-errors",
            "source_commits": [],
            "add_only": True,
        },
        "engines": [{"name": "pv", "path": "/verif/pv", "serves_properties": sorted(CHECKS),
                     "kind_free_text": "hand-written explicit-state / stateless bounded exhaustive explorers that drive the real pysnark code (operation sequences, witness spaces, guard histories, block programs, serializer traces, process-level configurations)"}],
        "checks": checks,
        "notes": "All checks run under /venv/bin/python with PYTHONHASHSEED=0 against /repo (or $PYSNARK_TREE). Genuine defects not repaired are listed in /verif/known_findings.json.",
        "not_applicable": na,
    }
    with open(os.path.join(HERE, "MANIFEST.json"), "w") as f:
        json.dump(man, f, indent=1)
        f.write("\n")


if __name__ == "__main__":
    main()
