#!/venv/bin/python
"""tools/xfeat_all.py [quick|thorough]: runs the whole cross-feature family (pv/xfeat.py) once with EVERY oracle kept,
plus the soundness and declaration passes, and prints the violation classes (development aid: one run validates the
E7 part of all eleven checks on the unchanged tree)."""
import collections, os, sys, time
if os.environ.get("PYTHONHASHSEED") != "0":
    os.environ["PYTHONHASHSEED"] = "0"
    os.execv(sys.executable, [sys.executable] + sys.argv)
sys.path.insert(0, os.path.dirname(os.path.dirname(os.path.abspath(__file__))))
sys.set_int_max_str_digits(0)
from pv import xfeat as X


class Ctx:
    def __init__(self, thorough):
        self.thorough, self.cov, self.violations, self.samples, self.harness_errors = thorough, {}, [], [], []

    def add(self, k, n=1):
        self.cov[k] = self.cov.get(k, 0) + n

    def sample(self, s, cap=12):
        pass


ctx = Ctx(len(sys.argv) > 1 and sys.argv[1] == "thorough")
X.KEEP["ALL"] = lambda s, f: True
X.PROP_MODES["ALL"] = X.MODES
t = time.time()
print("programs", len(X.programs(ctx)), flush=True)
print("sweep", X.sweep(ctx, "ALL"), round(time.time() - t), flush=True)
print("sound", X.sound_sweep(ctx, modes=("plain", "reuse")), round(time.time() - t), flush=True)
for pid in ("C03", "C15", "C16"):
    print("decl", pid, X.decl_sweep(ctx, pid), round(time.time() - t), flush=True)
seen = collections.Counter()
for v in ctx.violations:
    k = (v["sig"]["klass"], tuple(v["sig"].get("ops", [])), v["sig"].get("mode"))
    seen[k] += 1
    if seen[k] == 1 and len(seen) < 80:
        print(k, v["what"][:500])
print("violations", len(ctx.violations), collections.Counter(k[0] for k in seen), "harness errors", ctx.harness_errors)
