#!/usr/bin/env python3
"""Regression over all kept seeded changes WITHOUT touching /repo: for each seeded/<id>/ a scratch copy
of /repo's tracked tree is made under $TMPDIR, the patch applied there, and the checks that are
recorded as detecting it are re-run with PYSNARK_TREE pointing at the copy.
usage: tools/checkseeds.py [-j N] [id-substring ...]"""
import json, os, shutil, subprocess, sys, tempfile
from concurrent.futures import ThreadPoolExecutor

def run(sid):
    d = os.path.join("/verif/seeded", sid)
    meta = json.load(open(os.path.join(d, "meta.json")))
    tmp = tempfile.mkdtemp(prefix="pv-seedreg-")
    try:
        tree = os.path.join(tmp, "tree")
        subprocess.run("git -C /repo archive HEAD | tar -x -C %s" % (tmp + "/tree" if os.makedirs(tree) is None else tree), shell=True, check=True)
        r = subprocess.run(["git", "apply", "--whitespace=nowarn", os.path.join(d, "patch.diff")], cwd=tree, capture_output=True, text=True)
        if r.returncode:
            return sid, "PATCH-DOES-NOT-APPLY", {}
        env = dict(os.environ, PYSNARK_TREE=tree, VERIF_EVIDENCE_DIR=os.path.join(tmp, "ev"), VERIF_REPLAY_DIR=os.path.join(tmp, "rp"),
                   VERIF_JOBS=os.environ.get("SEED_JOBS", "4"), VERIF_NO_REPLAY_CONFIRM="1")
        res = {}
        for c in meta["detected_by"]:
            chk, tier = (c.split(":") + ["quick"])[:2]
            r = subprocess.run(["/verif/check", chk, "--tier", tier], cwd="/verif", env=env, capture_output=True, text=True)
            res[c] = (r.returncode, sum(1 for ln in r.stdout.splitlines() if ln.startswith("VIOLATION")))
        ok = all(v[0] == 1 and v[1] > 0 for v in res.values())
        return sid, "detected" if ok else "NOT-DETECTED", res
    finally:
        shutil.rmtree(tmp, True)

def main():
    args = sys.argv[1:]
    jobs = 4
    if args[:1] == ["-j"]:
        jobs = int(args[1]); args = args[2:]
    ids = sorted(os.listdir("/verif/seeded"))
    if args:
        ids = [i for i in ids if any(a in i for a in args)]
    bad = 0
    with ThreadPoolExecutor(jobs) as ex:
        for sid, verdict, res in ex.map(run, ids):
            print("%-60s %s %s" % (sid, verdict, res), flush=True)
            bad += verdict != "detected"
    print("%d seeded changes, %d not detected" % (len(ids), bad))
    return 1 if bad else 0

if __name__ == "__main__":
    sys.exit(main())
