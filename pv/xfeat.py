"""E7: cross-feature program explorer.

Programs are short statement sequences over a register file that COMBINE features of the library which the
other explorers enumerate one family at a time: integer / boolean / fixed-point secrets, Arrays (construction,
secret-index read and write, whole-array arithmetic and selection), linalg helpers, bit decomposition and the
packers, selection with eager and lazily evaluated arms, guarded regions, assertions and .val().

A program is a list of statements (opname, reg, reg, ...).  Registers 0..4 hold the inputs x, y (integer secrets),
b (boolean secret), f (fixed-point secret), i (integer secret used as an index).  The programs are not typed by
hand: they are enumerated breadth-first on the real code - a statement is appended when, for at least one input
vector of the domain, the real library executes it without a TypeError / AttributeError (the "well-typed" notion of
C07) - and every statement after the first must consume the newest register, so every program is a composition.
Each program is executed on EVERY input vector of the domain of the inputs it reads, in the modes plain / true guard /
false guard / ignore-errors, next to a plain-Python reference interpreter (ints, 0/1, Fractions, lists).

Oracles (one violation class each; a check keeps the classes of its property):
  unsat        C01  recorded witness violates an emitted constraint (modes with checking on)
  valwire      C04  some live register's value is not congruent to its wire expression (all modes)
  value        C05 / C14 / C15 / C16 / C09  a register differs from the reference (plain, true guard)
  no-raise     reference raises (index out of range, failed assertion, zero divisor) but the library returns
  trace        C06  two completed runs of one program (one mode class) differ in their canonical trace
  dead-raise   C07  a well-typed program raises under a false guard
  live-diff    C07  under a true guard the outcome differs from the unguarded one
  mutated      an operation changed a register it only reads
  state        C08  the mode triple is not clean after the program
  unsound      C02  (soundness pass) with the inputs pinned some register is not uniquely determined
"""
import itertools
import os
from fractions import Fraction

from . import common
from . import harness as H
from . import recorder as REC

N_BITS = 8
RES = 2
ONE = 1 << RES

INPUT_DOMAINS = {
    0: [-2, 0, 1, 3, 6],         # x (6: needs three bits and exceeds the modulus 5 of the packed field)
    1: [-1, 0, 2, 5],            # y
    2: [0, 1],                   # b
    3: [-6, -1, 0, 2, 10],       # f (representation at resolution 2: -1.5, -0.25, 0, 0.5, 2.5)
    4: [-1, 0, 1, 2, 3],         # i (index into arrays of length 3: two values out of range)
}
NIN = 5


class RefRaise(Exception):
    pass


class RefAny(Exception):
    pass


class RB(int):
    pass


# ------------------------------------------------------------------------------------------------ reference

def _num(v):
    if isinstance(v, (RB, int, Fraction)):
        return v
    raise RefAny


def _isF(v):
    return isinstance(v, Fraction)


def _flo(v):
    """floor to the resolution grid"""
    return Fraction((v * ONE).__floor__(), ONE)


def r_add(a, b):
    a, b = _num(a), _num(b)
    r = a + b
    return Fraction(r) if _isF(a) or _isF(b) else int(r)


def r_sub(a, b):
    a, b = _num(a), _num(b)
    r = a - b
    return Fraction(r) if _isF(a) or _isF(b) else int(r)


def r_mul(a, b):
    a, b = _num(a), _num(b)
    if _isF(a) and _isF(b):
        return _flo(a * b)
    if _isF(a) or _isF(b):
        return Fraction(a * b)
    if isinstance(a, RB) and isinstance(b, RB):
        return RB(int(a) * int(b))
    return int(a) * int(b)


def r_neg(a):
    a = _num(a)
    return -a if _isF(a) else -int(a)


def _cmp(f):
    def g(a, b):
        a, b = _num(a), _num(b)
        if (isinstance(a, RB)) != (isinstance(b, RB)) and not (_isF(a) or _isF(b)):
            # boolean against a non-boolean integer: conversion may refuse unless the value is 0/1
            other = b if isinstance(a, RB) else a
            if other not in (0, 1):
                raise RefAny
        return RB(1 if f(a, b) else 0)
    return g


def _bool2(f):
    def g(a, b):
        if not (isinstance(a, RB) and isinstance(b, RB)):
            raise RefAny
        return RB(f(int(a), int(b)))
    return g


def r_not(a):
    if not isinstance(a, RB):
        raise RefAny
    return RB(1 - int(a))


def r_ite(c, a, b):
    if not isinstance(c, RB):
        raise RefAny
    if isinstance(a, list) or isinstance(b, list):
        if not (isinstance(a, list) and isinstance(b, list)) or len(a) != len(b):
            raise RefAny
        return [r_ite(c, u, v) for u, v in zip(a, b)]
    a, b = _num(a), _num(b)
    r = a if int(c) else b
    if _isF(a) or _isF(b):
        return Fraction(r)
    if isinstance(a, RB) and isinstance(b, RB):
        return RB(int(r))
    return int(r)


def r_floordiv(a, b):
    a, b = _num(a), _num(b)
    if isinstance(a, RB) or isinstance(b, RB) or _isF(a) or _isF(b):
        raise RefAny
    if b == 0:
        raise RefRaise
    if b < 0:
        raise RefAny          # KF-C05-negdiv
    return a // b


def r_mod(a, b):
    a, b = _num(a), _num(b)
    if isinstance(a, RB) or isinstance(b, RB) or _isF(a) or _isF(b):
        raise RefAny
    if b == 0:
        raise RefRaise
    if b < 0:
        raise RefAny
    return a % b


def _lst(a):
    if not isinstance(a, list):
        raise RefAny
    return a


def _idx(i, n):
    i = _num(i)
    if isinstance(i, RB) or _isF(i):
        raise RefAny
    if not 0 <= i < n:
        raise RefRaise
    return int(i)


def r_get(a, i):
    a = _lst(a)
    return a[_idx(i, len(a))]


def _conv_like(arr, v):
    """element written into an array: arrays holding a fixed-point element make the selection fixed-point"""
    return v


def r_set(a, i, v):
    a = _lst(a)
    k = _idx(i, len(a))
    v = _num(v)
    anyF = _isF(v) or any(_isF(e) for e in a)
    for j in range(len(a)):
        e = v if j == k else a[j]
        a[j] = Fraction(e) if anyF and not _isF(e) else e
    return a


def r_lincomb(c0, c1, c2, a):
    a = _lst(a)
    if len(a) != 3:
        raise RefAny
    acc = 0
    for c, v in zip((c0, c1, c2), a):
        acc = r_add(acc, r_mul(c, v))
    return acc


def r_tobits3(a):
    a = _num(a)
    if isinstance(a, RB) or _isF(a):
        raise RefAny
    if not 0 <= a < 8:
        raise RefRaise
    return [RB((a >> k) & 1) for k in range(3)]


def r_frombits(l):
    l = _lst(l)
    acc = 0
    for k, b in enumerate(l):
        b = _num(b)
        if _isF(b):
            raise RefAny
        if int(b) not in (0, 1):
            raise RefAny
        acc += int(b) << k
    return acc


def r_pack_bi(c, v):
    if not isinstance(c, RB):
        raise RefAny
    v = _num(v)
    if isinstance(v, RB) or _isF(v):
        raise RefAny
    if not 0 <= v < 8:
        raise RefRaise           # PackIntMod(5) of a secret declares a 3-bit value
    return [c] + [RB((v >> k) & 1) for k in range(3)]


def r_unpack_bi(l):
    l = _lst(l)
    if len(l) != 4:
        raise RefAny
    for b in l:
        if _isF(_num(b)) or int(b) not in (0, 1):
            raise RefAny
    v = int(l[1]) + 2 * int(l[2]) + 4 * int(l[3])
    if v >= 5:
        raise RefRaise
    return [RB(int(l[0])), v]


def _assert(f):
    def g(a, b):
        a, b = _num(a), _num(b)
        if isinstance(a, RB) != isinstance(b, RB) and not (_isF(a) or _isF(b)):
            raise RefAny
        if not f(a, b):
            raise RefRaise
        return None
    return g


def r_val(a):
    return _num(a)


def r_abs(a):
    a = _num(a)
    if isinstance(a, RB):
        raise RefAny
    return abs(a)


def r_arr_eq_assert(a, b):
    a, b = _lst(a), _lst(b)
    if len(a) != len(b):
        raise RefRaise
    for u, v in zip(a, b):
        if _num(u) != _num(v):
            raise RefRaise
    return None


def _lazy(opref):
    def g(c, a, b, other):
        if not isinstance(c, RB):
            raise RefAny
        if int(c):
            return opref(a, b)
        o = _num(other)
        return o
    return g


def r_lazy_generic(opref):
    """lazy selection: result type follows both arms; the untaken arm's failure is irrelevant"""
    def g(c, a, b, other):
        if not isinstance(c, RB):
            raise RefAny
        o = _num(other)
        if int(c):
            v = opref(a, b)
            v = _num(v)
            if _isF(o) and not _isF(v):
                return Fraction(v)
            return v
        try:
            v = opref(a, b)
            if _isF(_num(v)) and not _isF(o):
                return Fraction(o)
        except (RefRaise, RefAny):
            pass
        return o
    return g


def r_lshift_s(a, k):
    a, k = _num(a), _num(k)
    if isinstance(a, RB) or isinstance(k, RB) or _isF(a) or _isF(k):
        raise RefAny
    if k < 0:
        raise RefAny
    if a < 0:
        raise RefAny          # KF-C05-secretexp-modp: negative operands of secret shifts
    return a << k


def r_rshift_s(a, k):
    a, k = _num(a), _num(k)
    if isinstance(a, RB) or isinstance(k, RB) or _isF(a) or _isF(k):
        raise RefAny
    if k < 0 or a < 0:
        raise RefAny
    return a >> k


def r_lazy_loop(c, a, b, n, other):
    if not isinstance(c, RB):
        raise RefAny
    a, b, n, o = _num(a), _num(b), _num(n), _num(other)
    for t in (a, b, n, o):
        if isinstance(t, RB) or _isF(t):
            raise RefAny
    if not int(c):
        return o
    if n < 0:
        raise RefAny
    v = a
    for _k in range(min(n, 3)):
        if b <= 0:
            raise RefAny
        v = v // b
    return v


import operator as _op

def r_assert_ge_k(a):
    a = _num(a)
    if isinstance(a, RB):
        raise RefAny
    if not a >= 1:
        raise RefRaise
    return None


def _lazy0(f):
    def g(c, a, b):
        if not isinstance(c, RB):
            raise RefAny
        if not int(c):
            return 0
        return f(a, b)
    return g


def r_unpack5(l):
    l = _lst(l)
    if len(l) != 3:
        raise RefAny
    for b in l:
        if _isF(_num(b)) or int(b) not in (0, 1):
            raise RefAny
    v = int(l[0]) + 2 * int(l[1]) + 4 * int(l[2])
    if v >= 5:
        raise RefRaise
    return v


def r_ite_bits(c, a, b):
    if not isinstance(c, RB):
        raise RefAny
    return r_tobits3(a) if int(c) else r_tobits3(b)


def r_asfxp(a):
    a = _num(a)
    if isinstance(a, RB) or _isF(a):
        raise RefAny
    return Fraction(a, ONE)


REF = {
    "snark_div": r_floordiv,
    "unpack5": r_unpack5, "ite_bits": r_ite_bits, "asfxp": r_asfxp,
    "lazy_lt0": _lazy0(lambda a, b: _cmp(_op.lt)(a, b)), "lazy_eq0": _lazy0(lambda a, b: _cmp(_op.eq)(a, b)),
    "lt_k": lambda a: _cmp(_op.lt)(a, 2) if not isinstance(_num(a), RB) else (_ for _ in ()).throw(RefAny()),
    "add_k": lambda a: r_add(a, 3), "assert_ge_k": r_assert_ge_k,
    "lshift_s": r_lshift_s, "rshift_s": r_rshift_s, "lazy_loop": r_lazy_loop,
    "mixbits": lambda c: [1, c, 0, 1] if isinstance(c, RB) else (_ for _ in ()).throw(RefAny()),
    "ign_on": lambda a: _num(a), "repack": lambda l: r_unpack_bi(l),
    "add": r_add, "sub": r_sub, "mul": r_mul, "neg": r_neg, "abs": r_abs,
    "lt": _cmp(_op.lt), "le": _cmp(_op.le), "eq": _cmp(_op.eq), "ne": _cmp(_op.ne),
    "and": _bool2(_op.and_), "or": _bool2(_op.or_), "xor": _bool2(_op.xor), "not": r_not,
    "ite": r_ite, "floordiv": r_floordiv, "mod": r_mod,
    "mkarr": lambda a, b, c: [_num(a), _num(b), _num(c)],
    "mkarr_k": lambda a, b: [_num(a), 7, _num(b)],
    "get": r_get, "set": r_set,
    "arr_add": lambda a, b: [r_add(u, v) for u, v in zip(_lst(a), _lst(b))] if len(_lst(a)) == len(_lst(b)) else (_ for _ in ()).throw(RefAny()),
    "arr_sub": lambda a, b: [r_sub(u, v) for u, v in zip(_lst(a), _lst(b))] if len(_lst(a)) == len(_lst(b)) else (_ for _ in ()).throw(RefAny()),
    "arr_scale": lambda a, s: [r_mul(s, u) for u in _lst(a)],
    "arr_adds": lambda a, s: [r_add(u, s) for u in _lst(a)],
    "arr_ite": r_ite,
    "arr_assert_eq": r_arr_eq_assert,
    "lincomb": r_lincomb,
    "scalar_mul": lambda s, a: [r_mul(s, u) for u in _lst(a)],
    "vector_sub": lambda a, b: [r_sub(u, v) for u, v in zip(_lst(a), _lst(b))],
    "tobits3": r_tobits3, "frombits": r_frombits,
    "bit0": lambda l: _lst(l)[0], "bit2": lambda l: _lst(l)[2] if len(_lst(l)) > 2 else (_ for _ in ()).throw(RefAny()),
    "pack_bi": r_pack_bi, "unpack_bi": r_unpack_bi,
    "packbool": lambda c: [c] if isinstance(c, RB) else (_ for _ in ()).throw(RefAny()),
    "assert_lt": _assert(_op.lt), "assert_eq": _assert(_op.eq), "assert_ne": _assert(_op.ne), "assert_le": _assert(_op.le),
    "val": r_val,
    "lazy_floordiv": r_lazy_generic(r_floordiv), "lazy_get": r_lazy_generic(r_get), "lazy_mul": r_lazy_generic(r_mul),
    "lazy_lt": r_lazy_generic(_cmp(_op.lt)),
    "lazy_bits": r_lazy_generic(lambda a, b: r_frombits(r_tobits3(a))),
    "guard_add": lambda c, a, b: r_add(a, b) if isinstance(c, RB) and int(c) else (_ for _ in ()).throw(RefAny()),
    "bitlen_up": lambda a: _num(a),
}

# ------------------------------------------------------------------------------------------------ implementation


def _A(vals):
    from pysnark.array import Array
    return Array(vals)


def _arr_of(a):
    from pysnark.array import Array
    if isinstance(a, Array):
        return a
    raise TypeError("not an Array")


def _list_of(a):
    if isinstance(a, list):
        return a
    raise TypeError("not a list")


def _scalar(a):
    from pysnark.array import Array
    if isinstance(a, (list, Array)) or a is None:
        raise TypeError("not a scalar")
    return a


def _i_set(a, i, v):
    a = _arr_of(a)
    a[_scalar(i)] = _scalar(v)
    return a


def _lazy_impl(f):
    def g(c, a, b, other):
        return H.branching.if_then_else(_scalar(c), lambda: f(a, b), _scalar(other))
    return g


def _packer():
    from pysnark import pack
    return pack.PackList([pack.PackBool(), pack.PackIntMod(5)])


def _i_bitlen_up(a):
    # the global bitlength grows between two uses of the same objects
    H.rt.bitlength = N_BITS + 3
    return _scalar(a) + 0


def _i_guard_add(c, a, b):
    return H.rt.guarded(_scalar(c))(lambda: _scalar(a) + _scalar(b))()


def _val(a):
    v = _scalar(a).val()
    return v


_EXEC = {}


def _shared_packer():
    # ONE schema object per execution: a history that runs the program twice uses the same packer both times
    if "packer" not in _EXEC:
        _EXEC["packer"] = _packer()
    return _EXEC["packer"]


def _i_lazy_loop(c, a, b, n, other):
    BR = H.branching

    def helper():
        _ = BR.BranchingValues()
        try:
            _.x = _scalar(a)
            for _k in BR._range(_scalar(n), max=3, ctx=_):
                _.x = _.x // _scalar(b)
            BR._endfor(ctx=_)
            return _.x
        except BaseException:
            del _.stack[:]      # a body that raises leaves its block open; keep the context's finaliser quiet
            raise
    return BR.if_then_else(_scalar(c), helper, _scalar(other))


def _i_ign_on(a):
    H.rt.ignore_errors(True)
    return _scalar(a) + 0


def _intwire(a):
    if not isinstance(a, H.rt.LinComb):
        raise TypeError("integer secret expected")
    return a


IMPL = {
    # a @snark-wrapped function called from inside the program (its arguments become public inputs, its result a public output)
    "snark_div": lambda a, b: H.rt.PrivVal(H.rt.snark(lambda u, v: u // v)(int(_intwire(a).value), int(_intwire(b).value))),
    # bits that went through a selection (plain integer wires, no longer boolean-typed) and a 3-bit field unpacked from them;
    # an integer secret re-interpreted as a fixed-point representation (the SAME wire under another type)
    "unpack5": lambda l: __import__("pysnark.pack", fromlist=["x"]).PackIntMod(5).unpack(_list_of(l), 0),
    "ite_bits": lambda c, a, b: list(H.branching.if_then_else(_scalar(c), _scalar(a).to_bits(3), _scalar(b).to_bits(3))),
    "asfxp": lambda a: H.fixedpoint.LinCombFxp(_scalar(a), False),
    # lazily evaluated arm against a plain literal as the other arm
    "lazy_lt0": lambda c, a, b: H.branching.if_then_else(_scalar(c), lambda: _scalar(a) < _scalar(b), 0),
    "lazy_eq0": lambda c, a, b: H.branching.if_then_else(_scalar(c), lambda: _scalar(a) == _scalar(b), 0),
    # plain Python integers as operands / bounds (constants lifted by the library, possibly under a guard)
    "lt_k": lambda a: _scalar(a) < 2, "add_k": lambda a: _scalar(a) + 3, "assert_ge_k": lambda a: _scalar(a).assert_ge(1),
    "lshift_s": lambda a, k: _scalar(a) << _scalar(k), "rshift_s": lambda a, k: _scalar(a) >> _scalar(k),
    "lazy_loop": _i_lazy_loop, "mixbits": lambda c: [1, _scalar(c), 0, 1], "ign_on": _i_ign_on,
    "repack": lambda l: _shared_packer().unpack(_list_of(l), 0),
    "add": lambda a, b: _scalar(a) + _scalar(b), "sub": lambda a, b: _scalar(a) - _scalar(b),
    "mul": lambda a, b: _scalar(a) * _scalar(b), "neg": lambda a: -_scalar(a), "abs": lambda a: abs(_scalar(a)),
    "lt": lambda a, b: _scalar(a) < _scalar(b), "le": lambda a, b: _scalar(a) <= _scalar(b),
    "eq": lambda a, b: _scalar(a) == _scalar(b), "ne": lambda a, b: _scalar(a) != _scalar(b),
    "and": lambda a, b: _scalar(a) & _scalar(b), "or": lambda a, b: _scalar(a) | _scalar(b),
    "xor": lambda a, b: _scalar(a) ^ _scalar(b), "not": lambda a: ~_scalar(a),
    "ite": lambda c, a, b: H.branching.if_then_else(_scalar(c), _scalar(a), _scalar(b)),
    "floordiv": lambda a, b: _scalar(a) // _scalar(b), "mod": lambda a, b: _scalar(a) % _scalar(b),
    "mkarr": lambda a, b, c: _A([_scalar(a), _scalar(b), _scalar(c)]),
    "mkarr_k": lambda a, b: _A([_scalar(a), 7, _scalar(b)]),
    "get": lambda a, i: _arr_of(a)[_scalar(i)], "set": _i_set,
    "arr_add": lambda a, b: _arr_of(a) + _arr_of(b), "arr_sub": lambda a, b: _arr_of(a) - _arr_of(b),
    "arr_scale": lambda a, s: _scalar(s) * _arr_of(a), "arr_adds": lambda a, s: _arr_of(a) + _scalar(s),
    "arr_ite": lambda c, a, b: H.branching.if_then_else(_scalar(c), _arr_of(a), _arr_of(b)),
    "arr_assert_eq": lambda a, b: _arr_of(a).assert_eq(_arr_of(b)),
    "lincomb": lambda c0, c1, c2, a: __import__("pysnark.linalg", fromlist=["x"]).lin_comb([_scalar(c0), _scalar(c1), _scalar(c2)], _arr_of(a).arr),
    "scalar_mul": lambda s, a: __import__("pysnark.linalg", fromlist=["x"]).scalar_mul(_scalar(s), _arr_of(a).arr),
    "vector_sub": lambda a, b: __import__("pysnark.linalg", fromlist=["x"]).vector_sub(_arr_of(a).arr, _arr_of(b).arr),
    "tobits3": lambda a: _scalar(a).to_bits(3), "frombits": lambda l: H.rt.LinComb.from_bits(_list_of(l)),
    "bit0": lambda l: _list_of(l)[0], "bit2": lambda l: _list_of(l)[2],
    "pack_bi": lambda c, v: _packer().pack([_scalar(c), _scalar(v)]),
    "unpack_bi": lambda l: _shared_packer().unpack(_list_of(l), 0),
    "packbool": lambda c: __import__("pysnark.pack", fromlist=["x"]).PackBool().pack(_scalar(c)),
    "assert_lt": lambda a, b: _scalar(a).assert_lt(_scalar(b)), "assert_eq": lambda a, b: _scalar(a).assert_eq(_scalar(b)),
    "assert_ne": lambda a, b: _scalar(a).assert_ne(_scalar(b)), "assert_le": lambda a, b: _scalar(a).assert_le(_scalar(b)),
    "val": _val,
    "lazy_floordiv": _lazy_impl(lambda a, b: _scalar(a) // _scalar(b)),
    "lazy_get": _lazy_impl(lambda a, i: _arr_of(a)[_scalar(i)]),
    "lazy_mul": _lazy_impl(lambda a, b: _scalar(a) * _scalar(b)),
    "lazy_lt": _lazy_impl(lambda a, b: _scalar(a) < _scalar(b)),
    "lazy_bits": _lazy_impl(lambda a, b: H.rt.LinComb.from_bits(_scalar(a).to_bits(3))),
    "guard_add": _i_guard_add,
    "bitlen_up": _i_bitlen_up,
}

ARITY = {"snark_div": 2, "unpack5": 1, "ite_bits": 3, "asfxp": 1, "lazy_lt0": 3, "lazy_eq0": 3, "lt_k": 1, "add_k": 1, "assert_ge_k": 1, "lshift_s": 2, "rshift_s": 2, "lazy_loop": 5, "mixbits": 1, "ign_on": 1, "repack": 1, "add": 2, "sub": 2, "mul": 2, "neg": 1, "abs": 1, "lt": 2, "le": 2, "eq": 2, "ne": 2, "and": 2, "or": 2, "xor": 2, "not": 1,
         "ite": 3, "floordiv": 2, "mod": 2, "mkarr": 3, "mkarr_k": 2, "get": 2, "set": 3, "arr_add": 2, "arr_sub": 2, "arr_scale": 2,
         "arr_adds": 2, "arr_ite": 3, "arr_assert_eq": 2, "lincomb": 4, "scalar_mul": 2, "vector_sub": 2, "tobits3": 1, "frombits": 1,
         "bit0": 1, "bit2": 1, "pack_bi": 2, "unpack_bi": 1, "packbool": 1, "assert_lt": 2, "assert_eq": 2, "assert_ne": 2,
         "assert_le": 2, "val": 1, "lazy_floordiv": 4, "lazy_get": 4, "lazy_mul": 4, "lazy_lt": 4, "lazy_bits": 4, "guard_add": 3,
         "bitlen_up": 1}

FEATURE = {}
for _f, _names in {
    "arith": ["add", "sub", "mul", "neg", "abs"], "cmp": ["lt", "le", "eq", "ne"], "bool": ["and", "or", "xor", "not"],
    "select": ["ite", "arr_ite"], "div": ["floordiv", "mod"], "array": ["mkarr", "mkarr_k", "get", "set", "arr_add", "arr_sub",
    "arr_scale", "arr_adds"], "linalg": ["lincomb", "scalar_mul", "vector_sub"], "bits": ["tobits3", "frombits", "bit0", "bit2"],
    "pack": ["pack_bi", "unpack_bi", "packbool"], "assert": ["assert_lt", "assert_eq", "assert_ne", "assert_le", "arr_assert_eq"],
    "val": ["val"], "lazy": ["lazy_floordiv", "lazy_get", "lazy_mul", "lazy_lt", "lazy_bits"], "guard": ["guard_add"],
    "config": ["bitlen_up", "ign_on"], "shift": ["lshift_s", "rshift_s"], "block": ["lazy_loop"], "mixbits": ["mixbits"]}.items():
    for _n in _names:
        FEATURE[_n] = _f
FEATURE["repack"] = "pack"
FEATURE["snark_div"] = "snark"
FEATURE["unpack5"] = "pack"
FEATURE["ite_bits"] = "select"
FEATURE["asfxp"] = "retype"
FEATURE["lazy_lt0"] = "lazy"
FEATURE["lazy_eq0"] = "lazy"
FEATURE["lt_k"] = "const"
FEATURE["add_k"] = "const"
FEATURE["assert_ge_k"] = "const"

# ops the soundness pass leaves out (results covered by known findings of C02: unconstrained quotient)
UNSOUND_KNOWN = {"snark_div", "floordiv", "mod", "lazy_floordiv", "lshift_s", "rshift_s", "lazy_loop"}
# statements whose first register argument is modified in place
INPLACE = {"set": 0}


def type_tag(v):
    rt, B, FX = H.rt, H.boolean, H.fixedpoint
    from pysnark.array import Array
    if isinstance(v, rt.LinComb):
        return "I"
    if isinstance(v, B.LinCombBool):
        return "B"
    if isinstance(v, FX.LinCombFxp):
        return "F"
    if isinstance(v, Array):
        return "A"
    if isinstance(v, list):
        return "L"
    if v is None:
        return "U"
    if isinstance(v, (int, float)):
        return "K"
    return "?"


def make_inputs(vec):
    rt, B, FX = H.rt, H.boolean, H.fixedpoint
    return [rt.PrivVal(vec[0]), rt.PrivVal(vec[1]), B.PrivValBool(vec[2]), FX.PrivValFxp(vec[3], False), rt.PrivVal(vec[4])]


def ref_inputs(vec):
    return [vec[0], vec[1], RB(vec[2]), Fraction(vec[3], ONE), vec[4]]


def lib_numeric(v):
    """numeric view of a library value (None when it has none)"""
    rt, B, FX = H.rt, H.boolean, H.fixedpoint
    from pysnark.array import Array
    if isinstance(v, rt.LinComb):
        return v.value
    if isinstance(v, B.LinCombBool):
        return v.lc.value
    if isinstance(v, FX.LinCombFxp):
        return Fraction(v.lc.value, 1 << FX.resolution)
    if isinstance(v, Array):
        return [lib_numeric(e) for e in v.arr]
    if isinstance(v, (list, tuple)):
        return [lib_numeric(e) for e in v]
    if isinstance(v, bool):
        return int(v)
    if isinstance(v, int):
        return v
    if isinstance(v, float):
        return Fraction(v)
    return None


def ref_numeric(v):
    if isinstance(v, list):
        return [ref_numeric(e) for e in v]
    if isinstance(v, Fraction):
        return v
    if v is None:
        return None
    return int(v)


def _same(a, b):
    if isinstance(a, list) or isinstance(b, list):
        return isinstance(a, list) and isinstance(b, list) and len(a) == len(b) and all(_same(x, y) for x, y in zip(a, b))
    if a is None or b is None:
        return a is None and b is None
    return Fraction(a) == Fraction(b)


def prog_str(prog):
    names = ["x", "y", "b", "f", "i"]
    out = []
    for k, st in enumerate(prog):
        regs = [names[r] if r < NIN else "r%d" % r for r in st[1:]]
        out.append("r%d=%s(%s)" % (NIN + k, st[0], ",".join(regs)))
    return "; ".join(out)


def used_inputs(prog):
    u = set()
    for st in prog:
        for r in st[1:]:
            if r < NIN:
                u.add(r)
    return sorted(u)


SMALL_DOMAINS = {0: [-2, 1, 6], 1: [-1, 2, 5], 2: [0, 1], 3: [-6, 0, 2], 4: [-1, 1, 3]}


def vectors(prog, domains=None):
    u = used_inputs(prog)
    if domains is None:
        domains = INPUT_DOMAINS
        n = 1
        for k in u:
            n *= len(domains[k])
        if n > 100 or len(prog) >= 3:
            domains = SMALL_DOMAINS

    base = [domains[k][1] if k != 4 else 1 for k in range(NIN)]
    out = []
    for combo in itertools.product(*[domains[k] for k in u]):
        v = list(base)
        for k, val in zip(u, combo):
            v[k] = val
        out.append(tuple(v))
    return out


class Run:
    __slots__ = ("status", "exc", "regs", "unsat", "mism", "trace", "mutated", "state_dirty", "step_exc", "types", "nvars_in", "pubs", "steps")


def _snap(v):
    """(numeric value, wire dicts) of a register, for the operand-immutability oracle"""
    secs = H.secrets_in(v)
    return (repr(lib_numeric(v)), tuple(tuple(sorted(s.lc.lc.items())) for s in secs))


def execute(prog, vec, mode, p=None, keep=False):
    """Run one program on one vector in one mode on the real code."""
    rt = H.rt
    H.reset(bitlength=N_BITS, resolution=RES)
    r = Run()
    r.unsat, r.mism, r.mutated, r.step_exc = [], [], [], None
    r.status, r.exc = "ok", None
    r.steps = []
    regs = []
    guard = None

    _EXEC.clear()
    shared_inputs = []

    def dead_pass():
        tmp = list(shared_inputs)
        for st in prog:
            tmp.append(IMPL[st[0]](*[tmp[j] for j in st[1:]]))

    def body():
        if mode == "reuse":
            shared_inputs.extend(make_inputs(vec))
            bl = rt.bitlength
            try:
                rt.guarded(H.boolean.PrivValBool(0))(dead_pass)()
            except Exception:  # noqa: BLE001  (judged by the false-guard mode)
                pass
            rt.guard, rt._ignore_errors, rt.LinComb.ONE = None, False, rt.LinComb.ONE_SAFE
            rt.bitlength = bl
            regs.extend(shared_inputs)
        else:
            regs.extend(make_inputs(vec))
        r.nvars_in = len(H.R.vars)
        for k, st in enumerate(prog):
            args = [regs[j] for j in st[1:]]
            ncon = len(H.R.cons)
            before = [_snap(regs[j]) for j in st[1:]]
            out = IMPL[st[0]](*args)
            regs.append(out)
            r.steps.append(lib_numeric(out))
            # C04 on everything live, C01 on what the statement emitted
            for j, v in enumerate(regs):
                bad = H.value_wire_mismatches(v)
                if bad:
                    r.mism.append((k, st[0], j, bad[0]))
            if mode != "ign":
                us = H.R.unsatisfied(ncon)
                if us:
                    r.unsat.append((k, st[0], us[0]))
            skip = INPLACE.get(st[0])
            for pos, j in enumerate(st[1:]):
                if pos == skip:
                    continue
                if _snap(regs[j]) != before[pos]:
                    r.mutated.append((k, st[0], j))
    try:
        if mode in ("plain", "reuse"):
            body()
        elif mode == "ign":
            rt.ignore_errors(True)
            try:
                body()
            finally:
                rt.ignore_errors(False)
        else:
            g = H.boolean.PrivValBool(1 if mode == "g1" else 0)
            rt.guarded(g)(body)()
    except Exception as ex:  # noqa: BLE001
        r.status, r.exc = "raise", type(ex).__name__
        r.step_exc = len(regs) - NIN if len(regs) >= NIN else -1
    has_ign = any(st[0] == "ign_on" for st in prog)
    if has_ign and mode in ("plain", "reuse"):
        r.state_dirty = rt.guard is not None or rt.LinComb.ONE is not rt.LinComb.ONE_SAFE
    else:
        r.state_dirty = not H.triple_clean()
    rt.guard, rt._ignore_errors, rt.LinComb.ONE = None, False, rt.LinComb.ONE_SAFE
    if mode != "ign" and r.status == "ok":
        us = H.R.unsatisfied(0)
        if us and not r.unsat:
            r.unsat.append((-1, "whole-run", us[0]))
    r.regs = regs if keep else [lib_numeric(v) for v in regs]
    r.types = [type_tag(v) for v in regs]
    r.trace = H.R.canonical_trace() if r.status == "ok" else None
    return r


def ref_execute(prog, vec):
    """Reference run: list of (kind, value) per statement, kind in value|raise|any; stops at the first non-value."""
    regs = ref_inputs(vec)
    out = []
    for st in prog:
        try:
            v = REF[st[0]](*[regs[j] for j in st[1:]])
        except RefRaise:
            out.append(("raise", None))
            return out
        except (RefAny, IndexError, TypeError, ZeroDivisionError):
            out.append(("any", None))
            return out
        regs.append(v)
        out.append(("value", ref_numeric(v)))
    out.append(("final", [ref_numeric(v) for v in regs[NIN:]]))
    return out


# ------------------------------------------------------------------------------------------------ enumeration

SCALAR_T = set("IBF")


def arg_ok(op, pos, t):
    """cheap static filter before trying an argument of type tag t at position pos"""
    if op in ("mkarr", "mkarr_k", "add", "sub", "mul", "neg", "abs", "lt", "le", "eq", "ne", "floordiv", "mod", "val",
              "assert_lt", "assert_eq", "assert_ne", "assert_le", "bitlen_up"):
        return t in SCALAR_T
    if op in ("and", "or", "xor", "not", "packbool", "mixbits"):
        return t == "B"
    if op in ("lshift_s", "rshift_s"):
        return t == "I"
    if op in ("ign_on", "lt_k", "add_k"):
        return t in SCALAR_T
    if op == "assert_ge_k":
        return t in ("I", "F")
    if op == "repack":
        return t == "L"
    if op == "lazy_loop":
        return t == "B" if pos == 0 else t == "I"
    if op == "snark_div":
        return t == "I"
    if op == "unpack5":
        return t == "L"
    if op == "ite_bits":
        return t == "B" if pos == 0 else t == "I"
    if op == "asfxp":
        return t == "I"
    if op in ("lazy_lt0", "lazy_eq0"):
        return t == "B" if pos == 0 else t in SCALAR_T
    if op == "ite":
        return t == "B" if pos == 0 else t in SCALAR_T
    if op == "arr_ite":
        return t == "B" if pos == 0 else t == "A"
    if op in ("get",):
        return t == "A" if pos == 0 else t == "I"
    if op == "set":
        return (t == "A", t == "I", t in SCALAR_T)[pos]
    if op in ("arr_add", "arr_sub", "vector_sub", "arr_assert_eq"):
        return t == "A"
    if op in ("arr_scale", "arr_adds"):
        return t == "A" if pos == 0 else t in SCALAR_T
    if op == "scalar_mul":
        return t in SCALAR_T if pos == 0 else t == "A"
    if op == "lincomb":
        return t in SCALAR_T if pos < 3 else t == "A"
    if op == "tobits3":
        return t == "I"
    if op in ("frombits", "bit0", "bit2", "unpack_bi"):
        return t == "L"
    if op == "pack_bi":
        return t == "B" if pos == 0 else t == "I"
    if op in ("lazy_floordiv", "lazy_mul", "lazy_lt", "lazy_bits"):
        return t == "B" if pos == 0 else t in SCALAR_T
    if op == "lazy_get":
        return (t == "B", t == "A", t == "I", t in SCALAR_T)[pos]
    if op == "guard_add":
        return t == "B" if pos == 0 else t in SCALAR_T
    return True


def probe_types(prog):
    """Type tags of all registers of a program, from the first input vector on which it completes (ignore-errors mode,
    so that values do not matter); None when it never completes (ill-typed or always raising)."""
    for vec in vectors(prog)[:12]:
        r = execute(prog, vec, "ign", keep=True)
        if r.status == "ok":
            return r.types
    for vec in vectors(prog)[:6]:
        r = execute(prog, vec, "plain", keep=True)
        if r.status == "ok":
            return r.types
    return None


def _arg_choices(op, types, must_use):
    """Argument tuples for op: the newest register in one position (any position that accepts its type), the canonical
    filler (first acceptable input, x / y alternating by position, i for index positions) elsewhere, plus the variants
    that replace ONE filler by the first register of each other acceptable type.  A finite, explicit family."""
    n = ARITY[op]
    per_pos = []
    for pos in range(n):
        order = list(range(NIN))
        if pos % 2:
            order = [1, 0, 2, 3, 4]
        if (op in ("get", "set", "lshift_s", "rshift_s") and pos == 1) or (op == "lazy_get" and pos == 2) or (op == "lazy_loop" and pos == 3):
            order = [4, 0, 1]
        seen, cands = set(), []
        for j in order:
            if j < len(types) and arg_ok(op, pos, types[j]) and types[j] not in seen:
                seen.add(types[j])
                cands.append(j)
        per_pos.append(cands)
    out = []
    if must_use is None:
        if any(not c for c in per_pos):
            return []
        base = tuple(c[0] for c in per_pos)
        out.append(base)
        for pos in range(n):
            for alt in per_pos[pos][1:]:
                out.append(base[:pos] + (alt,) + base[pos + 1:])
        return out
    for npos in range(n):
        if not arg_ok(op, npos, types[must_use]):
            continue
        others = [per_pos[q] if q != npos else [must_use] for q in range(n)]
        if any(not c for c in others):
            continue
        base = tuple(c[0] for c in others)
        if base not in out:
            out.append(base)
        for pos in range(n):
            if pos == npos:
                continue
            for alt in others[pos][1:]:
                t = base[:pos] + (alt,) + base[pos + 1:]
                if t not in out:
                    out.append(t)
    return out


FIRST = [("mkarr", 0, 1, 0), ("mkarr", 3, 0, 1), ("mkarr", 3, 1, 3), ("mkarr", 2, 0, 2), ("mkarr_k", 0, 1), ("mkarr_k", 3, 3),
         ("lt", 0, 1), ("eq", 0, 1), ("lt", 3, 0), ("le", 0, 3), ("mul", 0, 1), ("mul", 3, 0), ("mul", 2, 0), ("mul", 3, 2),
         ("add", 0, 3), ("add", 2, 2), ("sub", 0, 1), ("tobits3", 0), ("ite", 2, 0, 1), ("ite", 2, 0, 3), ("not", 2),
         ("floordiv", 0, 1), ("neg", 3), ("mixbits", 2), ("pack_bi", 2, 0), ("lshift_s", 0, 4), ("ign_on", 0), ("add_k", 0), ("lt_k", 3), ("ite_bits", 2, 0, 1), ("asfxp", 0), ("snark_div", 0, 1)]


THIRD_OPS = ["get", "set", "lazy_get", "ite", "lt", "frombits", "unpack_bi", "assert_eq", "add", "mul"]


def enumerate_from(first, depth, next_ops, cross_only=True, third_ops=None):
    """All well-typed programs of 2..depth statements that start with the statement `first` (breadth-first, on the real code)."""
    t = probe_types([first])
    if t is None:
        return []
    level = [([first], t)]
    allp = []
    for d in range(2, depth + 1):
        nxt = []
        for prog, types in level:
            newest = len(types) - 1
            feats = {FEATURE[s[0]] for s in prog}
            for op in (next_ops if d == 2 else (third_ops or THIRD_OPS)):
                if cross_only and d == 2 and FEATURE[op] in feats and op not in ("get", "set"):
                    continue
                for combo in _arg_choices(op, types, newest):
                    p2 = prog + [(op,) + combo]
                    t2 = probe_types(p2)
                    if t2 is not None:
                        nxt.append((p2, t2))
        allp.extend(p for p, _ in nxt)
        level = nxt
    return allp


FIRST_OPS = ["mkarr", "mkarr_k", "lt", "eq", "mul", "add", "tobits3", "ite", "and", "not", "sub"]
NEXT_OPS = ["snark_div", "unpack5", "ite_bits", "asfxp", "lazy_lt0", "lazy_eq0", "lt_k", "add_k", "assert_ge_k", "lshift_s", "rshift_s", "lazy_loop", "ign_on", "get", "set", "arr_ite", "arr_scale", "arr_add", "lincomb", "scalar_mul", "ite", "lt", "eq", "mul", "add", "and", "not",
            "tobits3", "frombits", "bit0", "pack_bi", "unpack_bi", "packbool", "assert_lt", "assert_eq", "arr_assert_eq", "val",
            "lazy_floordiv", "lazy_get", "lazy_mul", "lazy_lt", "lazy_bits", "guard_add", "bitlen_up", "floordiv", "mod", "abs", "neg",
            "ne", "le", "or", "xor", "arr_sub", "arr_adds", "vector_sub", "bit2", "assert_ne", "assert_le"]


def _limit_first(combos_for_op):
    return combos_for_op


# ------------------------------------------------------------------------------------------------ the sweep

def _init(p):
    H.bind(p)
    _start_template()


# ---- pristine-process executions: the same execution in a process that has never run anything must give the same result.
# A long-lived worker resets the state it knows about between executions; a cache the library keeps anywhere else
# (class attributes, module globals, memo tables) survives, and "first use in the process" is then seen by one execution
# per worker only.  Each worker therefore forks, right after importing the library, a TEMPLATE process that never executes
# library code itself; on request the template forks a child that runs ONE execution and reports.

_TEMPLATE = None


def _summary(run):
    return (run.status, run.exc, run.regs, run.steps, bool(run.unsat), bool(run.mism), run.trace)


def _start_template():
    global _TEMPLATE
    import pickle
    if _TEMPLATE is not None:
        return
    req_r, req_w = os.pipe()
    res_r, res_w = os.pipe()
    pid = os.fork()
    if pid == 0:
        try:
            os.close(req_w)
            os.close(res_r)
            fin, fout = os.fdopen(req_r, "rb"), os.fdopen(res_w, "wb")
            while True:
                try:
                    job = pickle.load(fin)
                except EOFError:
                    break
                r, w = os.pipe()
                c = os.fork()
                if c == 0:
                    os.close(r)
                    try:
                        prog, vec, mode, p = job
                        H.R.p = p
                        out = _summary(execute(prog, vec, mode))
                    except BaseException as ex:  # noqa: BLE001
                        out = ("harness", repr(ex))
                    try:
                        with os.fdopen(w, "wb") as f:
                            pickle.dump(out, f)
                    finally:
                        os._exit(0)
                os.close(w)
                with os.fdopen(r, "rb") as f:
                    data = f.read()
                os.waitpid(c, 0)
                pickle.dump(data, fout)
                fout.flush()
        finally:
            os._exit(0)
    os.close(req_r)
    os.close(res_w)
    _TEMPLATE = (pid, os.fdopen(req_w, "wb"), os.fdopen(res_r, "rb"))


def pristine(prog, vec, mode, p):
    import pickle
    _, fw, fr = _TEMPLATE
    pickle.dump((prog, vec, mode, p), fw)
    fw.flush()
    return pickle.loads(pickle.load(fr))


def _gen_task(t):
    first, depth, nops = t
    return enumerate_from(first, depth, NEXT_OPS[:nops])


MODES = ("plain", "g1", "g0", "ign", "reuse")


PRISTINE_FOR = {"ALL", "C01", "C03", "C04", "C05", "C14", "C15", "C16"}


def analyse(prog, p, modes=MODES, domains=None, want_pristine=True):
    """All vectors x modes for one program; returns (stats, violations)."""
    H.R.p = p
    st = {"executions": 0, "transitions": 0, "completed": 0, "raised": 0, "compared": 0}
    viols = []
    ps = prog_str(prog)
    feats = sorted({FEATURE[s[0]] for s in prog})
    vecs = vectors(prog, domains)
    runs = {}
    for mode in modes:
        for vec in vecs:
            r = execute(prog, vec, mode)
            runs[(mode, vec)] = r
            st["executions"] += 1
            st["transitions"] += len(prog)
            st["completed" if r.status == "ok" else "raised"] += 1

    def v(klass, mode, vec, what, **extra):
        sig = {"klass": klass, "ops": [s[0] for s in prog], "mode": mode, "engine": "xfeat"}
        sig.update(extra)
        viols.append({"sig": sig, "case": {"xfeat": True, "prog": [list(s) for s in prog], "vec": list(vec) if vec else None, "mode": mode, "p": p},
                      "what": "cross-feature program [%s] on (x,y,b,f,i)=%s, mode %s: %s" % (ps, list(vec) if vec else "-", mode, what), "feats": feats})

    completes_somewhere = any(r.status == "ok" for r in runs.values())
    for (mode, vec), r in runs.items():
        if r.unsat and mode != "ign":
            k, op, idx = r.unsat[0]
            v("unsat", mode, vec, "constraint #%d emitted by statement %d (%s) is not satisfied by the recorded witness" % (idx, k, op), op=op)
        if r.mism:
            k, op, j, bad = r.mism[0]
            v("valwire", mode, vec, "after statement %d (%s) register %d reports %s but its wire evaluates to %s" % (k, op, j, bad[0], bad[1]), op=op)
        if r.mutated:
            k, op, j = r.mutated[0]
            v("mutated", mode, vec, "statement %d (%s) changed register %d, which it only reads" % (k, op, j), op=op)
        if r.state_dirty:
            v("state", mode, vec, "mode triple / bitlength not restored after the program (status %s)" % r.status)
    # reference comparison in plain and g1
    for vec in vecs:
        ref = ref_execute(prog, vec)
        for mode in ("plain", "g1", "reuse"):
            if mode not in modes:
                continue
            r = runs[(mode, vec)]
            if mode == "reuse" and "plain" in modes:
                a = runs[("plain", vec)]
                if a.status != r.status or (a.status != "ok" and a.exc != r.exc):
                    v("reuse-diff", mode, vec, "fresh objects: %s %s; same objects after a dead first run: %s %s" % (a.status, a.exc, r.status, r.exc))
            for k, (kind, val) in enumerate(ref):
                if kind == "any":
                    break
                if kind == "final":
                    # state of every register at the end (in-place array writes are visible through every alias)
                    if r.status == "ok" and not _same(list(r.regs[NIN:]), val):
                        v("value", mode, vec, "registers at the end %s, reference %s" % (r.regs[NIN:], val), op=prog[-1][0])
                    break
                if kind == "raise":
                    if r.status == "ok" or (r.step_exc is not None and r.step_exc > k):
                        v("no-raise", mode, vec, "statement %d (%s) must be refused (reference has no value) but the run continued" % (k, prog[k][0]), op=prog[k][0])
                    break
                if r.status != "ok" and r.step_exc is not None and r.step_exc <= k:
                    break       # the library raised at or before this step: allowed ("or raises")
                st["compared"] += 1
                got = r.steps[k] if len(r.steps) > k else None
                if not _same(got, val):
                    v("value", mode, vec, "statement %d (%s) gives %s, reference %s" % (k, prog[k][0], got, val), op=prog[k][0])
                    break
        # true guard transparent
        if "g1" in modes and "plain" in modes:
            a, b = runs[("plain", vec)], runs[("g1", vec)]
            if a.status != b.status or (a.status == "ok" and not _same_regs(a.regs, b.regs)) or (a.status != "ok" and a.exc != b.exc):
                v("live-diff", "g1", vec, "unguarded: %s %s; under a true guard: %s %s" % (a.status, a.exc or a.regs[NIN:], b.status, b.exc or b.regs[NIN:]))
        if "g0" in modes and completes_somewhere:
            r0 = runs[("g0", vec)]
            if r0.status != "ok" and r0.exc not in ("TypeError", "AttributeError", "NotImplementedError"):
                v("dead-raise", "g0", vec, "raises %s at statement %s under a false guard" % (r0.exc, r0.step_exc), exc=r0.exc)
    # traces: one per mode class; ign == plain
    by_mode = {}
    for (mode, vec), r in runs.items():
        if r.trace is not None:
            by_mode.setdefault(mode, {}).setdefault(r.trace, vec)
    for mode, tr in by_mode.items():
        if len(tr) > 1:
            vs = list(tr.values())
            v("trace", mode, vs[1], "completed runs on %s and %s emit different constraint systems" % (list(vs[0]), list(vs[1])))
    if "plain" in by_mode and "ign" in by_mode and len(by_mode["plain"]) == 1 and len(by_mode["ign"]) == 1:
        if set(by_mode["plain"]) != set(by_mode["ign"]):
            v("trace", "ign", list(by_mode["ign"].values())[0], "the constraint system differs between checked and ignore-errors runs")
    if "g0" in by_mode and "g1" in by_mode and len(by_mode["g0"]) == 1 and len(by_mode["g1"]) == 1:
        if set(by_mode["g0"]) != set(by_mode["g1"]):
            v("trace", "g0", list(by_mode["g0"].values())[0], "the constraint system differs between a true and a false enclosing secret guard")
    st["distinct_traces"] = sum(len(t) for t in by_mode.values())
    # same execution, pristine process (see _start_template): first and last vector, every mode but ignore-errors
    if _TEMPLATE is not None and want_pristine:
        for vec in ([vecs[0], vecs[-1]] if len(vecs) > 1 else vecs):
            for mode in modes:
                if mode == "ign":
                    continue
                here = _summary(runs[(mode, vec)])
                there = pristine(prog, vec, mode, p)
                st["pristine_executions"] = st.get("pristine_executions", 0) + 1
                if there[0] == "harness":
                    st["pristine_harness_errors"] = st.get("pristine_harness_errors", 0) + 1
                    continue
                if there == here:
                    continue
                if there[:2] != here[:2] or not _same_regs(there[2], here[2]) or not _same_regs(there[3], here[3]):
                    v("hist-value", mode, vec, "in a process that has not executed anything before: %s %s %s; in the long-lived worker: %s %s %s"
                      % (there[0], there[1] or "", there[2][NIN:], here[0], here[1] or "", here[2][NIN:]))
                elif there[4] != here[4]:
                    v("hist-unsat", mode, vec, "recorded witness %s the constraints in a pristine process, %s in the long-lived worker"
                      % (("violates" if there[4] else "satisfies"), ("violates" if here[4] else "satisfies")))
                elif there[5] != here[5]:
                    v("hist-valwire", mode, vec, "value == wire %s in a pristine process, %s in the long-lived worker" % (not there[5], not here[5]))
                elif there[6] != here[6]:
                    v("hist-trace", mode, vec, "the constraint system of the same execution differs between a pristine process and the long-lived worker")
    if any(s_[0] == "ign_on" for s_ in prog):
        # the program itself switches error checking off: only the invariants that hold in that mode too are kept
        viols = [x for x in viols if x["sig"]["klass"] in ("valwire", "state", "mutated")]
    return st, viols


def _same_regs(a, b):
    return len(a) == len(b) and all(_same(x, y) if not (x is None or y is None) else x is y for x, y in zip(a, b))


PROP_MODES = {"C03": ("plain", "reuse"), "C01": ("plain", "g1", "g0", "reuse"), "C04": MODES, "C05": ("plain", "g1", "reuse"), "C06": ("plain", "g1", "g0", "ign"),
              "C07": ("plain", "g1", "g0"), "C08": ("plain", "g1", "g0"), "C09": ("plain", "g1"), "C14": ("plain", "g1", "reuse"),
              "C15": ("plain", "g1", "reuse"), "C16": ("plain", "g1", "reuse")}


def _task(t):
    progs, p, modes, pid = t
    agg = {}
    viols = {}
    for prog in progs:
        st, vs = analyse(prog, p, modes, want_pristine=pid in PRISTINE_FOR)
        common.merge_counts(agg, st)
        for x in vs:
            h = common.sig_hash(x["sig"])
            if h not in viols:
                x["count"] = 1
                viols[h] = x
            else:
                viols[h]["count"] += 1
    return agg, list(viols.values())


# property -> violation classes it keeps, and a filter on the features involved
KEEP = {
    "C03": lambda s, feats: (s["klass"] in ("no-raise", "reuse-diff") and s.get("op", "assert") in DECL_OPS) or (s["klass"] in ("reuse-diff", "hist-value") and bool({"assert", "const"} & set(feats))),
    "C01": lambda s, feats: s["klass"] in ("unsat", "hist-unsat"),
    "C04": lambda s, feats: s["klass"] in ("valwire", "hist-valwire"),
    "C05": lambda s, feats: s["klass"] in ("value", "no-raise", "mutated", "reuse-diff", "hist-value") and not ({"array", "linalg"} & set(feats)) and "F" not in s.get("t", ""),
    "C06": lambda s, feats: s["klass"] in ("trace", "hist-trace"),
    "C07": lambda s, feats: s["klass"] in ("dead-raise", "live-diff") or (s["klass"] == "unsat" and s["mode"] == "g0"),
    "C08": lambda s, feats: s["klass"] == "state",
    "C09": lambda s, feats: s["klass"] in ("value", "no-raise") and "lazy" in feats,
    "C14": lambda s, feats: s["klass"] in ("value", "no-raise", "hist-value"),
    "C15": lambda s, feats: s["klass"] in ("value", "no-raise", "mutated", "reuse-diff", "hist-value") and bool({"array", "linalg"} & set(feats)),
    "C16": lambda s, feats: s["klass"] in ("value", "no-raise", "reuse-diff", "hist-value") and bool({"bits", "pack", "mixbits"} & set(feats)),
}

_PROGRAM_CACHE = {}


def programs(ctx, depth=None):
    if depth is None:
        # two statements in both tiers (the thorough tier takes ALL statements as second statement and a second field).
        # VERIF_XFEAT_DEPTH=3 adds a third statement from the core list THIRD_OPS (about 75 000 programs, an hour on 16
        # cores per property): built, but not part of a registered command because one complete silent run on the
        # unchanged tree could not be finished in the time available.
        depth = int(os.environ.get("VERIF_XFEAT_DEPTH", "2"))
    key = (depth, ctx.thorough)
    if key not in _PROGRAM_CACHE:
        nops = len(NEXT_OPS) if ctx.thorough else 44
        res = common.pool_map(_gen_task, [(f, depth, nops) for f in FIRST], init=_init, initargs=(REC.BN128,), force_fork=True)
        _PROGRAM_CACHE[key] = [p for r in res for p in r]
    return _PROGRAM_CACHE[key]


def sweep(ctx, pid, fields=None, f_only=None):
    """Run the cross-feature family for property `pid`; adds violations of that property's classes to ctx."""
    progs = programs(ctx)
    if f_only is not None:
        progs = [pr for pr in progs if f_only(pr)]
    fields = fields or ([REC.BN128] if not ctx.thorough else [REC.BN128, REC.BLS12_381])
    keep = KEEP[pid]
    chunks = []
    per = max(1, len(progs) // (common.NCPU * 6))
    for p in fields:
        for i in range(0, len(progs), per):
            chunks.append((progs[i:i + per], p, PROP_MODES.get(pid, MODES), pid))
    results = common.pool_map(_task, chunks, init=_init, initargs=(REC.BN128,), force_fork=True)
    agg = {}
    n = 0
    for st, vs in results:
        common.merge_counts(agg, st)
        for x in vs:
            if keep(x["sig"], x.get("feats", [])):
                ctx.violations.append({"sig": x["sig"], "case": x["case"], "what": x["what"] + " (x%d)" % x.get("count", 1)})
                n += 1
    ctx.add("xfeat_programs", len(progs) * len(fields))
    ctx.add("xfeat_executions", agg.get("executions", 0))
    ctx.add("xfeat_compared_with_reference", agg.get("compared", 0))
    ctx.add("xfeat_completed", agg.get("completed", 0))
    ctx.add("xfeat_pristine_process_executions", agg.get("pristine_executions", 0))
    if agg.get("pristine_harness_errors"):
        ctx.harness_errors.append("%d pristine-process executions failed inside the harness" % agg["pristine_harness_errors"])
    ctx.add("executions", agg.get("executions", 0))
    ctx.add("transitions", agg.get("transitions", 0))
    ctx.cov["xfeat_rule"] = ("cross-feature programs (pv/xfeat.py): every well-typed 2-statement composition over the combined alphabet "
                             "(integers, booleans, fixed point, Arrays, linalg, bits, packers, eager and lazy selection, guarded regions, "
                             "assertions, val, a bitlength change) whose statements come from different feature families, on every input "
                             "vector of the small domain, in modes plain / true guard / false guard / ignore-errors, against a plain reference")
    if progs:
        ctx.sample({"xfeat_program": prog_str(progs[len(progs) // 2]), "vectors": len(vectors(progs[len(progs) // 2]))})
    return agg


def replay(case, pid=None):
    H.bind(case.get("p", REC.BN128))
    _start_template()
    prog = [tuple(s) for s in case["prog"]]
    st, vs = analyse(prog, case.get("p", REC.BN128))
    if pid in KEEP:
        vs = [x for x in vs if KEEP[pid](x["sig"], x.get("feats", []))]
    vec = tuple(case["vec"]) if case.get("vec") else None
    hits = [x for x in vs if x["case"]["mode"] == case["mode"] and (vec is None or tuple(x["case"]["vec"] or ()) == vec)]
    return {"violations": [{"sig": x["sig"], "what": x["what"]} for x in (hits or vs)]}


# ------------------------------------------------------------------------------------------------ soundness pass (E2 on E7 programs)

MULLIKE = {"mul", "lazy_mul", "lincomb", "scalar_mul", "arr_scale"}


def sound_eligible(prog, types):
    ops = {s[0] for s in prog}
    if ops & UNSOUND_KNOWN or ops & {"ign_on", "bitlen_up", "val"}:
        return False
    if ops & MULLIKE and "F" in types:
        return False          # fixed-point products rescale through the division gadget (KF-C02-quotient)
    return True


def sound_analyse(prog, p, mode="plain"):
    from . import e2, witness as W
    st = {"sound_instances": 0, "sound_undecided": 0, "sound_capped": 0, "sound_nodes": 0, "sound_solutions": 0, "sound_skipped": 0}
    viols = []
    ps = prog_str(prog)
    for vec in vectors(prog, SMALL_DOMAINS):
        H.R.want_sites = True
        try:
            r = execute(prog, vec, mode, keep=True)
        finally:
            H.R.want_sites = False
        if r.status != "ok":
            st["sound_skipped"] += 1
            continue
        if not sound_eligible(prog, r.types):
            st["sound_skipped"] += 1
            return st, viols
        inst = e2.Instance()
        inst.p, inst.n = p, N_BITS
        inst.cons = list(H.R.cons)
        inst.nvars = len(H.R.vars)
        inst.assignment = {i + 1: v[1] % p for i, v in enumerate(H.R.vars)}
        # the prover is bound to the inputs only (reuse mode: the inputs are the first variables as well; the dead pass's
        # own guard is a secret of the program and stays pinned to its value 0)
        nfix = NIN if mode == "plain" else NIN + 1
        inst.fixed = {i: inst.assignment[i] for i in range(1, nfix + 1)}
        inst.sites = list(H.R.sites)
        inst.wires = [dict(lc.lc.lc) for v in r.regs[NIN:] for lc in H.secrets_in(v)]
        if not inst.wires:
            continue
        inst.honest = [W.eval_lc(w, inst.assignment, p) for w in inst.wires]
        st["sound_instances"] += 1
        try:
            rel = {v for w in inst.wires for v in w if v != 0}
            sols, undec, s = W.exact(inst.cons, inst.nvars, inst.fixed, p, relevant=rel, honest=inst.assignment)
        except W.Capped:
            st["sound_capped"] += 1
            continue
        st["sound_nodes"] += s["nodes"]
        st["sound_solutions"] += len(sols)
        if undec:
            st["sound_undecided"] += 1
            continue
        for f in e2.classify(inst, sols):
            if f["klass"] == "undecided-dependent":
                st["sound_undecided"] += 1
                continue
            full = dict(inst.assignment)
            full.update(f["alt"])
            if not W.verify(W.reduce_system(inst.cons, p), full, p):
                st["sound_harness_error"] = st.get("sound_harness_error", 0) + 1
                continue
            sig = {"klass": f["klass"], "root_fn": f["root"][1], "root_line": f["root"][2], "attrib": "-", "engine": "xfeat", "ops": [s_[0] for s_ in prog]}
            if mode != "plain":
                sig["history"] = mode
            what = ("cross-feature program [%s] on (x,y,b,f,i)=%s%s: the constraints admit a witness in which the inputs keep their values but "
                    "result wire #%d %s; first deviating witness variable v%s created at %s:%s `%s`"
                    % (ps, list(vec), " (after a dead first run on the same objects)" if mode == "reuse" else "", f["wire_index"],
                       "is unconstrained (free variable)" if f["klass"] == "free-output" else
                       "= %s instead of %s" % (e2.centered(f.get("got", 0), p), e2.centered(f.get("honest", 0), p)),
                       f["var"], f["root"][0], f["root"][1], f["root"][2]))
            viols.append({"sig": sig, "what": what,
                          "case": {"xfeat": True, "sound": True, "prog": [list(s_) for s_ in prog], "vec": list(vec), "mode": mode, "p": p}})
            break
    return st, viols


def _sound_task(t):
    progs, p, modes = t
    agg, viols = {}, {}
    for prog in progs:
        for mode in modes:
            st, vs = sound_analyse(prog, p, mode)
            common.merge_counts(agg, st)
            for x in vs:
                h = common.sig_hash(x["sig"])
                if h not in viols:
                    x["count"] = 1
                    viols[h] = x
                else:
                    viols[h]["count"] += 1
    return agg, list(viols.values())


def sound_sweep(ctx, only=None, modes=("plain",)):
    """Witness-space enumeration (exact engine, real field) on the cross-feature programs: inputs pinned, every wire of
    every register must be uniquely determined."""
    progs = programs(ctx)
    if only is not None:
        progs = [pr for pr in progs if only(pr)]
    per = max(1, len(progs) // (common.NCPU * 8))
    chunks = [(progs[i:i + per], REC.BN128, modes) for i in range(0, len(progs), per)]
    results = common.pool_map(_sound_task, chunks, init=_init, initargs=(REC.BN128,), force_fork=True)
    agg = {}
    for st, vs in results:
        common.merge_counts(agg, st)
        for x in vs:
            ctx.violations.append({"sig": x["sig"], "case": x["case"], "what": x["what"] + " (x%d)" % x.get("count", 1)})
    for k, v in agg.items():
        ctx.add("xfeat_" + k, v)
    ctx.add("executions", agg.get("sound_instances", 0))
    ctx.add("instances", agg.get("sound_instances", 0))
    if agg.get("sound_harness_error"):
        ctx.harness_errors.append("%d cross-feature counterexamples failed re-verification" % agg["sound_harness_error"])
    return agg


def sound_replay(case):
    H.bind(case.get("p", REC.BN128))
    prog = [tuple(s) for s in case["prog"]]
    st, vs = sound_analyse(prog, case.get("p", REC.BN128), case.get("mode", "plain"))
    return {"violations": [{"sig": x["sig"], "what": x["what"]} for x in vs]}


# ------------------------------------------------------------------------------------------------ declarations are enforced (C03 / C15 / C16)

DECL_OPS = {"unpack5": "C16", "assert_ge_k": "C03", "assert_lt": "C03", "assert_eq": "C03", "assert_ne": "C03", "assert_le": "C03", "arr_assert_eq": "C03", "tobits3": "C16",
            "pack_bi": "C16", "unpack_bi": "C16", "repack": "C16", "get": "C15", "set": "C15", "lazy_get": "C15", "lazy_bits": "C16"}


def decl_analyse(prog, p, pid):
    """For every input vector on which the reference REFUSES a declaring statement (false assertion, value outside the declared
    width, index outside the array): the system recorded by an ignore-errors run, with the inputs pinned, must have no solution."""
    from . import witness as W
    st = {"decl_instances": 0, "decl_undecided": 0, "decl_capped": 0, "decl_unsat_confirmed": 0}
    viols = []
    if not any(DECL_OPS.get(s[0]) == pid for s in prog) or any(s[0] in ("ign_on", "bitlen_up") or s[0] in UNSOUND_KNOWN for s in prog):
        return st, viols      # (programs through the unconstrained quotient of // and % are the known finding KF-C02-quotient)
    ps = prog_str(prog)
    for vec in vectors(prog, SMALL_DOMAINS):
        ref = ref_execute(prog, vec)
        k = next((j for j, (kind, _) in enumerate(ref) if kind in ("raise", "any")), None)
        if k is None or ref[k][0] != "raise" or DECL_OPS.get(prog[k][0]) != pid:
            continue
        r = execute(prog, vec, "ign", keep=True)
        if r.status != "ok":
            continue
        cons, nvars = list(H.R.cons), len(H.R.vars)
        asg = {i + 1: v[1] % p for i, v in enumerate(H.R.vars)}
        fixed = {i: asg[i] for i in range(1, NIN + 1)}
        st["decl_instances"] += 1
        try:
            sols, undec, s = W.exact(cons, nvars, fixed, p)
        except W.Capped:
            st["decl_capped"] += 1
            continue
        if undec:
            st["decl_undecided"] += 1
            continue
        if not sols:
            st["decl_unsat_confirmed"] += 1
            continue
        sig = {"klass": "refused-value-provable", "op": prog[k][0], "ops": [s_[0] for s_ in prog], "engine": "xfeat"}
        viols.append({"sig": sig, "what": "cross-feature program [%s] on (x,y,b,f,i)=%s: statement %d (%s) must refuse these values, yet the constraints "
                                          "recorded by an unchecked run are satisfiable with the inputs pinned (%d solution families)" % (ps, list(vec), k, prog[k][0], len(sols)),
                      "case": {"xfeat": True, "decl": True, "prog": [list(s_) for s_ in prog], "vec": list(vec), "p": p, "pid": pid}})
        break
    return st, viols


def _decl_task(t):
    progs, p, pid = t
    agg, viols = {}, {}
    for prog in progs:
        st, vs = decl_analyse(prog, p, pid)
        common.merge_counts(agg, st)
        for x in vs:
            h = common.sig_hash(x["sig"])
            if h not in viols:
                x["count"] = 1
                viols[h] = x
            else:
                viols[h]["count"] += 1
    return agg, list(viols.values())


def decl_sweep(ctx, pid):
    progs = [pr for pr in programs(ctx) if any(DECL_OPS.get(s[0]) == pid for s in pr)]
    per = max(1, len(progs) // (common.NCPU * 8))
    chunks = [(progs[i:i + per], REC.BN128, pid) for i in range(0, len(progs), per)]
    results = common.pool_map(_decl_task, chunks, init=_init, initargs=(REC.BN128,), force_fork=True)
    agg = {}
    for st, vs in results:
        common.merge_counts(agg, st)
        for x in vs:
            ctx.violations.append({"sig": x["sig"], "case": x["case"], "what": x["what"] + " (x%d)" % x.get("count", 1)})
    for k, v in agg.items():
        ctx.add("xfeat_" + k, v)
    ctx.add("executions", agg.get("decl_instances", 0))
    return agg


def decl_replay(case):
    H.bind(case.get("p", REC.BN128))
    prog = [tuple(s) for s in case["prog"]]
    st, vs = decl_analyse(prog, case.get("p", REC.BN128), case["pid"])
    return {"violations": [{"sig": x["sig"], "what": x["what"]} for x in vs]}
