"""E1: operation-sequence explorer — executes programs over the public API on the recorder and
evaluates the per-step state invariants after every transition (API call)."""
import itertools

from . import harness as H
from . import ops as O

MODES = ("plain", "ign", "g1", "g0")
NESTED_MODES = ("n00", "n01", "n10", "n11")      # two nested secret guards (outer, inner)


def D(n):
    """Complete integer interval [-(2^n+1), 2^n+1]."""
    m = 2 ** n + 1
    return list(range(-m, m + 1))


def nibble_patterns(n):
    """Values below 2^(n-1) whose hexadecimal digits run through ALL sixteen nibble values (table-driven digit
    expansions), in both directions."""
    if n < 20:
        return set()
    h = ("0123456789abcdef" * (n // 64 + 2))
    out = set()
    for s_ in (h, h[::-1], "c" * 80, "9e3779b97f4a7c15" * 6):
        out.add(int(s_[: (n - 1) // 4], 16) % (2 ** (n - 1)))
    return out


def lattice(n):
    """Boundary lattice for larger bitlengths (explicit finite domain, enumerated completely)."""
    pts = {0, 1, 2} | (nibble_patterns(n) if n >= 64 else set())
    for k in (2 ** (n - 1) - 1, 2 ** (n - 1), 2 ** (n - 1) + 1, 2 ** n - 1, 2 ** n, 2 ** n + 1):
        pts.add(k)
    return sorted({-x for x in pts} | pts)


def wide_lattice(n, full=True):
    """Lattice for bitlengths beyond the completely enumerated ones: the width's own boundaries, the
    boundaries of every power-of-two table size below it, alternating bit patterns."""
    pts = {0, 1, 2 ** (n - 1) - 1, 2 ** n - 1, 2 ** n, sum(1 << i for i in range(0, n, 2))}
    for k in (8, 16, 32, 64):
        if k < n:
            pts |= {2 ** k - 1, 2 ** k, 2 ** k + 5}
    pts |= nibble_patterns(n)
    if full:
        pts |= {2, 3, 2 ** (n - 1), 2 ** (n - 1) + 1, 2 ** n + 1, sum(1 << i for i in range(1, n, 2))}
    return sorted({-x for x in pts} | pts)


def huge_lattice(p):
    """Values far outside any bitlength, for the operations that accept them (linear arithmetic,
    products, exact division, zero tests): machine-word boundaries and the field's own boundary."""
    pts = [0, 1, 3, 2 ** 31 - 1, 2 ** 32 + 1, 2 ** 63 - 1, 2 ** 64 + 3, 2 ** 127 + 5, p - 1, p, p + 2, 2 ** 256 + 7]
    return sorted({-x for x in pts} | set(pts))


HUGE_OPS = ("add", "sub", "mul", "truediv", "eq", "ne", "neg", "pos", "check_zero", "check_nonzero", "if_then_else", "if_else",
            "assert_eq", "assert_ne", "assert_zero", "assert_nonzero")


def huge_programs():
    return [pr for pr in depth1_programs() if pr["expr"][1] in HUGE_OPS and "B" not in pr["kinds"][1:] or
            (pr["expr"][1] in ("if_then_else", "if_else") and pr["kinds"] == ["B", "S", "S"])]


def kind_domain(kind, vals):
    if kind == "B":
        return [0, 1]
    if kind == "A":
        return [-2, 0, 3]       # element of an array operand (integer secret from a small set: arrays have many operands)
    return vals


def make_operand(kind, v):
    if kind in ("S", "Z", "A"):
        return H.rt.PrivVal(v)
    if kind in ("K", "V", "W", "M"):
        return v
    if kind == "B":
        return H.boolean.PrivValBool(v)
    if kind == "F":
        return H.fixedpoint.PrivValFxp(v, False)       # v is the representation integer
    if kind == "P":
        return H.rt.PubVal(v)
    if kind == "C":
        return H.rt.ConstVal(v)
    raise ValueError(kind)


class Step:
    __slots__ = ("op", "status", "exc", "unsat", "mism")


class Outcome:
    __slots__ = ("status", "exc", "excmsg", "value", "steps", "unsat", "mism", "ncons", "nvars",
                 "triple_ok", "trace", "calls", "result_wires", "mutated")

    def brief(self):
        return (self.status, self.exc, self.value)


def _apply(e, operands, out):
    """Evaluate expression on API objects, checking invariants after every API call."""
    if e[0] == "in":
        return operands[e[1]]
    args = [_apply(s, operands, out) for s in e[2:]]
    c0 = len(H.R.cons)
    before = [_snap(a) for a in args]
    try:
        res = O.IMPL[e[1]](*args)
    finally:
        out.calls += 1
        # an operation must leave its operand OBJECTS as they were (value and wire expression)
        for i, (a, b) in enumerate(zip(args, before)):
            if b is not None and _snap(a) != b:
                if getattr(out, "mutated", None) is None:
                    out.mutated = []
                out.mutated.append((e[1], arg_kinds(args), i, b[0], _snap(a)[0]))
        bad = H.R.unsatisfied(c0)
        if bad:
            ak = arg_kinds(args)
            out.unsat.extend((e[1], ak, i) for i in bad)
    mm = H.value_wire_mismatches(res)
    if mm:
        ak = arg_kinds(args)
        out.mism.extend((e[1], ak) + m for m in mm)
    if out.steps is not None:
        out.steps.append((e[1], arg_kinds(args), H.plain(res)))
    return res


def _snap(a):
    """(value, wire expression) of a secret operand object; None for plain Python operands."""
    lc = a if isinstance(a, H.rt.LinComb) else getattr(a, "lc", None)
    if not isinstance(lc, H.rt.LinComb):
        return None
    inner = getattr(lc.lc, "lc", lc.lc)
    return (lc.value, tuple(sorted(inner.items())) if isinstance(inner, dict) else repr(inner))


def arg_kinds(args):
    """Operand kinds as the operation sees them: K int, S integer secret, B boolean secret,
    F fixed-point secret, L list, ? other."""
    s = ""
    for a in args:
        if isinstance(a, bool) or isinstance(a, int):
            s += "K"
        elif isinstance(a, H.rt.LinComb):
            s += "S"
        elif isinstance(a, H.boolean.LinCombBool):
            s += "B"
        elif isinstance(a, H.fixedpoint.LinCombFxp):
            s += "F"
        elif isinstance(a, float):
            s += "f"
        elif isinstance(a, list):
            s += "L"
        else:
            s += "?"
    return s


def execute(prog, vals, mode, n, want_trace=False, p=None, want_steps=False):
    """Run one program on one input vector in one mode from a clean state."""
    if p is not None and H.R.p != p:
        H.R.p = p
    H.reset(bitlength=n, resolution=1)
    rt = H.rt
    out = Outcome()
    out.unsat, out.mism, out.calls = [], [], 0
    out.mutated = None
    out.steps = [] if want_steps else None
    out.trace = None
    out.result_wires = None
    out.excmsg = None
    operands = [make_operand(k, v) for k, v in zip(prog["kinds"], vals)]
    nv0, nc0 = len(H.R.vars), len(H.R.cons)
    expr = prog["expr"]
    try:
        if mode == "plain":
            res = _apply(expr, operands, out)
        elif mode == "ign":
            rt.ignore_errors(True)
            try:
                res = _apply(expr, operands, out)
            finally:
                rt.ignore_errors(False)
        elif mode in ("g0", "g1"):
            g = rt.PrivVal(1 if mode == "g1" else 0)
            nv0, nc0 = len(H.R.vars), len(H.R.cons)
            res = rt.guarded(g)(lambda: _apply(expr, operands, out))()
        elif mode in NESTED_MODES:
            go, gi = rt.PrivVal(int(mode[1])), rt.PrivVal(int(mode[2]))
            nv0, nc0 = len(H.R.vars), len(H.R.cons)
            res = rt.guarded(go)(lambda: rt.guarded(gi)(lambda: _apply(expr, operands, out))())()
        else:
            raise ValueError(mode)
        out.status, out.exc = "ok", None
        out.value = H.plain(res)
        if want_trace:
            out.result_wires = tuple(H.R.canon_lc(lc.lc.lc) for lc in H.secrets_in(res))
    except Exception as ex:  # noqa: BLE001 - any library exception is an observation
        out.status, out.exc, out.value = "raise", type(ex).__name__, None
        out.excmsg = str(ex)[:120]
    # whole-run invariants (also on the raise path: constraints emitted before the raise stay)
    out.ncons, out.nvars = len(H.R.cons) - nc0, len(H.R.vars) - nv0
    out.triple_ok = H.triple_clean()
    if want_trace and out.status == "ok":
        out.trace = H.R.canonical_trace(nv0, nc0)
    return out


# ------------------------------------------------------------------------------------------
# program families

FXP_BINARY = ["add", "sub", "mul", "truediv", "floordiv", "mod", "lt", "le", "eq", "ne", "gt", "ge"]


def fxp_programs():
    """Fixed-point operands (resolution 1) in every position; values are representation integers."""
    progs = []
    for name in FXP_BINARY:
        for kinds in (("F", "F"), ("F", "S"), ("S", "F"), ("F", "K"), ("K", "F")):
            progs.append({"expr": ("op", name, ("in", 0), ("in", 1)), "kinds": list(kinds)})
    for name in ("neg", "abs", "check_zero", "check_positive"):
        progs.append({"expr": ("op", name, ("in", 0)), "kinds": ["F"]})
    for kinds in (("B", "F", "F"), ("B", "F", "S"), ("B", "K", "F")):
        progs.append({"expr": ("op", "if_then_else", ("in", 0), ("in", 1), ("in", 2)), "kinds": list(kinds)})
    for name in ("assert_lt", "assert_eq", "assert_ge"):
        progs.append({"expr": ("op", name, ("in", 0), ("in", 1)), "kinds": ["F", "F"]})
    return progs


def depth1_programs(include_bool=True, include_assert=True, include_fxp=False):
    progs = []
    if include_fxp:
        progs += fxp_programs()
    for name in O.BINARY_INT:
        for kinds in (("S", "S"), ("S", "K"), ("K", "S")):
            progs.append({"expr": ("op", name, ("in", 0), ("in", 1)), "kinds": list(kinds)})
    # public (PubVal) operands: as left operand of every operator, as right operand of the non-commutative ones
    for name in O.BINARY_INT:
        progs.append({"expr": ("op", name, ("in", 0), ("in", 1)), "kinds": ["P", "S"]})
        if name in ("sub", "truediv", "floordiv", "mod", "pow", "lshift", "rshift", "lt", "ge"):
            progs.append({"expr": ("op", name, ("in", 0), ("in", 1)), "kinds": ["S", "P"]})
    for name in O.UNARY_INT:
        progs.append({"expr": ("op", name, ("in", 0)), "kinds": ["S"]})
        if name in ("neg", "abs", "invert", "check_zero", "check_positive", "bits_roundtrip"):
            progs.append({"expr": ("op", name, ("in", 0)), "kinds": ["P"]})
    for kinds in (("B", "S", "S"), ("B", "S", "K"), ("B", "K", "S"), ("B", "B", "B")):
        progs.append({"expr": ("op", "if_then_else", ("in", 0), ("in", 1), ("in", 2)),
                      "kinds": list(kinds)})
    progs.append({"expr": ("op", "if_else", ("in", 0), ("in", 1), ("in", 2)),
                  "kinds": ["B", "S", "S"]})
    # whole-array arithmetic and selection (two-element arrays)
    progs.append({"expr": ("op", "array_add", ("in", 0), ("in", 1), ("in", 2), ("in", 3)), "kinds": ["A", "A", "A", "A"]})
    progs.append({"expr": ("op", "array_sub", ("in", 0), ("in", 1), ("in", 2), ("in", 3)), "kinds": ["A", "A", "A", "A"]})
    for k3 in ("S", "K"):
        progs.append({"expr": ("op", "array_adds", ("in", 0), ("in", 1), ("in", 2)), "kinds": ["A", "A", k3]})
        progs.append({"expr": ("op", "array_scale", ("in", 0), ("in", 1), ("in", 2)), "kinds": ["A", "A", k3]})
    progs.append({"expr": ("op", "array_ite", ("in", 0), ("in", 1), ("in", 2), ("in", 3), ("in", 4)), "kinds": ["B", "A", "A", "A", "A"]})
    # recomposition from a list of entries that need not be bits (value and wire must still agree)
    for kinds in (("S", "S", "S"), ("B", "S", "B"), ("S", "K", "S")):
        progs.append({"expr": ("op", "from_bits3", ("in", 0), ("in", 1), ("in", 2)), "kinds": list(kinds)})
    if include_bool:
        for name in O.BINARY_BOOL:
            for kinds in (("B", "B"), ("B", "K"), ("K", "B"), ("B", "S"), ("S", "B")):
                if name == "pow" and kinds[0] != "B":
                    continue
                progs.append({"expr": ("op", name, ("in", 0), ("in", 1)), "kinds": list(kinds)})
        for name in O.UNARY_BOOL:
            progs.append({"expr": ("op", name, ("in", 0)), "kinds": ["B"]})
    if include_assert:
        for name in O.ASSERT2:
            for kinds in (("S", "S"), ("S", "K")):
                progs.append({"expr": ("op", name, ("in", 0), ("in", 1)), "kinds": list(kinds)})
        for name in O.ASSERT1:
            progs.append({"expr": ("op", name, ("in", 0)), "kinds": ["S"]})
        for kinds in (("S", "K", "K"), ("S", "S", "S")):
            progs.append({"expr": ("op", "assert_range", ("in", 0), ("in", 1), ("in", 2)),
                          "kinds": list(kinds)})
    return progs


def depth2_programs(inner_ops=None, outer_ops=None):
    """op2(op1(x,y), z) and op2(z, op1(x,y)) over the integer core."""
    inner_ops = inner_ops or O.BINARY_INT
    outer_ops = outer_ops or O.BINARY_INT
    progs = []
    for o1 in inner_ops:
        for k1 in (("S", "S"), ("S", "K")):
            inner = ("op", o1, ("in", 0), ("in", 1))
            if o1 == "divmod":
                continue
            for o2 in outer_ops:
                for kz in ("S", "K"):
                    progs.append({"expr": ("op", o2, inner, ("in", 2)), "kinds": list(k1) + [kz]})
                    progs.append({"expr": ("op", o2, ("in", 2), inner), "kinds": list(k1) + [kz]})
            for o2 in O.UNARY_INT:
                progs.append({"expr": ("op", o2, inner), "kinds": list(k1)})
    return progs


class Structured(list):
    """Operand values with a STRUCTURE in the interior of an n-bit range (powers of two, all-ones, byte multiples,
    alternating bits, small multipliers).  Used as `vals`: not the full product is enumerated but every structured value
    against a companion set (itself, its negative, its neighbours, small numbers, the range boundaries)."""

    def __init__(self, n, full=False):
        pts = {3, 5, 6, 7, 10, 12, 13, 100, 255, 256, 257, 512, 768, 1000, 1024}
        ones = set()
        for k in range(1, n):
            pts.add(2 ** k)
            ones.add(2 ** k - 1)
        pts |= {sum(1 << i for i in range(0, n - 1, 2)), sum(1 << i for i in range(1, n - 1, 2)), 3 << (n - 3), 2 ** (n - 1) - 256}
        pts = sorted(x for x in pts if 0 < x < 2 ** n)
        ones = sorted(x for x in ones if 0 < x < 2 ** n and x not in pts)
        neg_ones = ones if full else ones[:: 4]
        super().__init__(sorted({-x for x in pts} | set(pts) | set(ones) | {-x for x in neg_ones}))
        self.n = n
        self.full = full

    def companions(self, v):
        n = self.n
        c = {v, -v, v + 1, 0, 1, 2, 3, 10, 256, -1, 2 ** (n - 1) - 1, v // 2}
        if self.full:
            c |= {v - 1, 7, 12, -3, -(2 ** (n - 1)), 2 * v}
        return sorted(c)


def input_vectors(prog, vals):
    if isinstance(vals, Structured):
        return _structured_vectors(prog, vals)
    doms = [kind_domain(k, vals) for k in prog["kinds"]]
    return itertools.product(*doms)


def _structured_vectors(prog, S):
    kinds = prog["kinds"]
    free = [i for i, k in enumerate(kinds) if k not in ("B", "A")]
    fixed = {i: kind_domain(k, S) for i, k in enumerate(kinds) if k in ("B", "A")}
    seen = set()
    out = []

    def emit(assign):
        for combo in itertools.product(*[fixed[i] for i in sorted(fixed)]):
            vec = [None] * len(kinds)
            for i, v in zip(sorted(fixed), combo):
                vec[i] = v
            for i, v in assign.items():
                vec[i] = v
            t = tuple(vec)
            if t not in seen:
                seen.add(t)
                out.append(t)
    if not free:
        emit({})
    elif len(free) == 1:
        for v in S:
            emit({free[0]: v})
    elif len(free) == 2:
        a, b = free[0], free[1]
        for v in S:
            for w in S.companions(v):
                emit({a: v, b: w})
                emit({a: w, b: v})
    else:
        a, b, c = free[0], free[1], free[2]
        for v in S:
            for w in S.companions(v):
                # (value, lower bound, upper bound)-like triples: structured bounds around small / structured values
                for x, y, z in ((v, w, w + 1), (w, 0, v), (w, v, 2 * v), (w, -v, v)):
                    asg = {a: x, b: y, c: z}
                    for r in free[3:]:
                        asg[r] = x
                    emit(asg)
    return out
