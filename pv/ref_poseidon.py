"""Independent plain-integer Poseidon (x^a S-box, R_F full + R_P partial rounds, sponge with
rate t-1 and '1 then zeros' padding) and subset-sum hash, parameterised by a constants table.
Written from the algorithm description; shares no code with pysnark/poseidon_hash.py."""
import hashlib


def permute(state, C, p):
    t, a = C["t"], C["a"]
    rc, M = C["round_constants"], C["matrix"]
    half = C["R_F"] // 2
    s = [x % p for x in state]
    rnd = 0

    def mix(v):
        return [sum(M[i][k] * v[k] for k in range(t)) % p for i in range(t)]

    for _ in range(half):
        s = [(x + c) % p for x, c in zip(s, rc[rnd])]
        s = [pow(x, a, p) for x in s]
        s = mix(s)
        rnd += 1
    for _ in range(C["R_P"]):
        s = [(x + c) % p for x, c in zip(s, rc[rnd])]
        s[0] = pow(s[0], a, p)
        s = mix(s)
        rnd += 1
    for _ in range(half):
        s = [(x + c) % p for x, c in zip(s, rc[rnd])]
        s = [pow(x, a, p) for x in s]
        s = mix(s)
        rnd += 1
    return s


def pad(msg, rate):
    out = list(msg) + [1]
    while len(out) % rate:
        out.append(0)
    return out


def sponge_hash(msg, C, p):
    t = C["t"]
    rate = t - 1
    m = pad(msg, rate)
    state = [0] * t
    for i in range(0, len(m), rate):
        for j in range(rate):
            state[1 + j] = (state[1 + j] + m[i + j]) % p
        state = permute(state, C, p)
    return state[1:]


def subset_sum_coeff(i, p):
    """i-th nothing-up-my-sleeve coefficient: SHA-512 of (i, counter) as two little-endian 64-bit
    integers, read as a little-endian integer, truncated to bitlength(p) bits, first one below p."""
    mask = (1 << p.bit_length()) - 1
    it = 0
    while True:
        d = hashlib.sha512(i.to_bytes(8, "little") + it.to_bytes(8, "little")).digest()
        v = int.from_bytes(d, "little") & mask
        if v < p:
            return v
        it += 1


def subset_sum_hash(bits, p):
    return sum(b * subset_sum_coeff(i, p) for i, b in enumerate(bits)) % p
