"""C10: the snarkjs files encode exactly the traced circuit and a valid witness.

E5 on pysnark.snarkjsbackend itself: all backend-API call sequences of the bounded alphabet
(pv/e5.py) plus the traces of the E1 depth-1 programs are serialised by the backend's own prove()
and read back by decoders written from the iden3 format specifications (pv/decoders/iden3.py)."""
import importlib
import os
import random
import shutil
import sys
import tempfile

from .. import common
from .. import e5
from ..decoders import iden3

_B = None
_TMP = None


def _init():
    global _B, _TMP
    sys.path.insert(0, common.TREE) if common.TREE not in sys.path else None
    _B = importlib.import_module("pysnark.snarkjsbackend")
    if not os.path.realpath(_B.__file__).startswith(os.path.realpath(common.TREE)):
        raise RuntimeError("snarkjsbackend imported from " + _B.__file__)
    _TMP = tempfile.mkdtemp(prefix="pv-c10-")
    os.chdir(_TMP)
    import atexit
    atexit.register(shutil.rmtree, _TMP, True)
    from multiprocessing import util
    util.Finalize(None, shutil.rmtree, args=(_TMP, True), exitpriority=1)
    sys.stderr = open(os.devnull, "w")


def _reset():
    del _B.pubvals[:]
    del _B.privvals[:]
    del _B.constraints[:]


def check_files(pub, priv, cons, p, tag):
    """Decode circuit.r1cs / witness.wtns in cwd and compare with the expectation.
    Returns list of (klass, text)."""
    out = []
    try:
        r = iden3.read_r1cs(open("circuit.r1cs", "rb").read())
        w = iden3.read_wtns(open("witness.wtns", "rb").read())
    except iden3.Malformed as ex:
        return [("malformed", str(ex))]
    for d in r["defects"]:
        out.append(("r1cs-not-well-formed", d))
    for d in w["defects"]:
        out.append(("wtns-not-well-formed:" + ("canonical" if "canonical" in d else "structure"), d))
    npub, npriv = len(pub), len(priv)
    if r["prime"] != p or w["prime"] != p:
        out.append(("wrong-prime", "prime in files %d / %d" % (r["prime"], w["prime"])))
    if r["nwires"] != 1 + npub + npriv:
        out.append(("header-nwires", "nWires %d, expected %d" % (r["nwires"], 1 + npub + npriv)))
    if r["npubout"] + r["npubin"] != npub:
        out.append(("header-npublic", "nPubOut+nPubIn = %d, expected %d public values" % (r["npubout"] + r["npubin"], npub)))
    if r["ncons"] != len(cons):
        out.append(("header-nconstraints", "mConstraints %d, expected %d" % (r["ncons"], len(cons))))
    if w["nwitness"] != 1 + npub + npriv:
        out.append(("wtns-count", "nWitness %d, expected %d" % (w["nwitness"], 1 + npub + npriv)))
    # (ii) decoded system == traced system under the documented numbering
    def wid(name):
        if name == "one":
            return 0
        return name[1] if name[0] == "pub" else npub + name[1]
    for i, (tri, exp) in enumerate(zip(r["constraints"], cons)):
        for side, (terms, e) in enumerate(zip(tri, exp)):
            got = iden3.lc_dict(terms, p)
            want = {wid(k): c for k, c in e.items()}
            if got != want:
                out.append(("constraint-differs", "constraint %d side %s decodes to %s, traced %s" % (i, "ABC"[side], got, want)))
                break
    # (iii) decoded assignment == traced values mod p
    want_w = [1] + [v % p for v in pub] + [v % p for v in priv]
    if [x % p for x in w["values"]] != want_w:
        bad = [i for i, (a, b) in enumerate(zip(w["values"], want_w)) if a % p != b]
        out.append(("witness-differs", "witness entries %s differ from the traced values mod p (e.g. wrote %s for %s)"
                    % (bad[:4], w["values"][bad[0]] if bad else "?", (([1] + pub + priv)[bad[0]]) if bad else "?")))
    # (iv) decoded witness satisfies decoded constraints whenever the traced one does
    if e5.satisfied(pub, priv, cons, p) and len(w["values"]) == r["nwires"]:
        vals = w["values"]
        for i, tri in enumerate(r["constraints"]):
            ev = [sum(v * vals[wi] for wi, v in terms if wi < len(vals)) % p for terms in tri]
            if (ev[0] * ev[1] - ev[2]) % p:
                out.append(("decoded-witness-violates-decoded-constraint", "constraint %d" % i))
                break
    return out


def _task(t):
    chunk, p = t
    st = {"traces": 0, "transitions": 0, "files_decoded": 0, "satisfied_traces": 0}
    viols = {}
    shapes = set()
    for spec in chunk:
        _reset()
        e5.build(_B, spec, p)
        _B.prove()
        st["traces"] += 1
        st["transitions"] += len(spec["vars"]) + len(spec["cons"]) + 1
        pub, priv, cons = e5.expected(spec, p)
        if e5.satisfied(pub, priv, cons, p):
            st["satisfied_traces"] += 1
        st["files_decoded"] += 2
        shapes.add((len(pub), len(priv), len(cons)))
        for klass, text in check_files(pub, priv, cons, p, None):
            sig = {"klass": klass}
            k = common.sig_hash(sig)
            if k not in viols:
                viols[k] = {"sig": sig, "count": 0, "what": "trace %s: %s" % (e5.spec_str(spec, p), text),
                            "case": {"spec": e5.compact(spec)}}
            viols[k]["count"] += 1
    return {"st": st, "viols": viols, "shapes": shapes}


def two_phase_specs(p, level):
    """Histories with TWO prove() calls: part of the trace, prove(), the rest of the trace, prove() again;
    the files of the second call must encode the complete trace."""
    import itertools
    V = [0, -1, p + 1, 2 ** 256 + 5] if level else [0, -1, 2 ** 256 + 5]
    out = []
    for k1, k2 in ((1, 1), (2, 1), (1, 2), (0, 2), (2, 0)):
        kinds = list(itertools.product(("pub", "priv"), repeat=k1 + k2))
        for kk in kinds:
            for vals in itertools.product(V, repeat=k1 + k2) if k1 + k2 <= 2 else itertools.product(V[:2], repeat=k1 + k2):
                vars_ = list(zip(kk, vals))
                n1 = len(e5.lc_menu(k1, p))
                n2 = len(e5.lc_menu(k1 + k2, p))
                for c1 in ([(i, (i + 1) % n1, (i + 2) % n1) for i in range(0, n1, 2)] if n1 else [()]):
                    for c2 in [(i, (i + 3) % n2, (2 * i + 1) % n2) for i in range(0, n2, 3)]:
                        out.append({"vars1": vars_[:k1], "cons1": [c1], "vars2": vars_[k1:], "cons2": [c2]})
    return out


def _task2(t):
    chunk, p = t
    st = {"traces": 0, "transitions": 0, "files_decoded": 0, "satisfied_traces": 0, "two_prove_histories": 0}
    viols = {}
    for h in chunk:
        _reset()
        spec1 = {"vars": h["vars1"], "cons": h["cons1"]}
        e5.build(_B, spec1, p)
        _B.prove()
        # second phase: declare the remaining variables, then constraints over ALL variables
        vs = []
        # e5.build needs the variable objects: rebuild them from the backend's own lists
        allspec = {"vars": h["vars1"] + h["vars2"], "cons": h["cons2"]}
        npub = npriv = 0
        objs = []
        for kind, val in h["vars1"]:
            if kind == "pub":
                npub += 1
                objs.append(_B.LinearCombination({npub: 1}))
            else:
                npriv += 1
                objs.append(_B.LinearCombination({-npriv: 1}))
        for kind, val in h["vars2"]:
            objs.append(_B.pubval(val) if kind == "pub" else _B.privval(val))
        menu = e5.lc_menu(len(objs), p)
        for tri in h["cons2"]:
            a, b, c = (menu[i][1](_B, objs) for i in tri)
            _B.add_constraint(a, b, c)
        _B.prove()
        st["traces"] += 1
        st["two_prove_histories"] += 1
        st["transitions"] += len(allspec["vars"]) + 2 + 2
        st["files_decoded"] += 2
        pub, priv, cons1 = e5.expected(spec1, p)
        pub, priv, cons2 = e5.expected(allspec, p)
        for klass, text in check_files(pub, priv, cons1 + cons2, p, None):
            sig = {"klass": klass, "history": "two-prove"}
            k = common.sig_hash(sig)
            if k not in viols:
                viols[k] = {"sig": sig, "count": 0, "what": "history %s (prove() after part 1 and again at the end): %s" % (h, text),
                            "case": {"two": h}}
            viols[k]["count"] += 1
    return {"st": st, "viols": viols, "shapes": set()}


def _e1_task(n):
    """Real gadget output through the serializer: E1 depth-1 programs traced with the snarkjs
    backend selected by pre-import (fresh process)."""
    import json
    import subprocess
    env = dict(os.environ, PYTHONHASHSEED="0")
    env.pop("PYSNARK_BACKEND", None)
    r = subprocess.run([common.PY, "-m", "pv.checks.c10", str(n)], cwd=common.VERIF, env=env, capture_output=True,
                       text=True, start_new_session=True)
    if r.returncode != 0:
        return {"error": r.stderr[-400:]}
    return json.loads(r.stdout)


def run(ctx):
    p = BN = __import__("pv.recorder", fromlist=["BN128"]).BN128
    traces = e5.traces(1 if ctx.thorough else 0, p)
    random.Random(ctx.seed).shuffle(traces)
    # large traces: more than 8192 wires / 4096 private variables / 4096 constraints / 64 KiB per section
    # (thorough: more than 65535 of each)
    # ... and traces whose wire count (1 + variables) is EXACTLY 256 / 1024 / 2048 / 4096, or one more / less
    traces = [e5.big_trace(nv, 7, p) for nv in (254, 255, 256, 1022, 1023, 1024, 2047, 4095, 8191)] + [e5.big_trace(9001, 4500, p), e5.big_trace(300, 1200, p)] + ([e5.big_trace(70001, 100000, p)] if ctx.thorough else []) + traces
    nchunks = common.NCPU * 4
    chunks = [traces[i::nchunks] for i in range(nchunks)]
    results = common.pool_map(_task, [(c, p) for c in chunks if c], init=_init)
    two = two_phase_specs(p, 1 if ctx.thorough else 0)
    results += common.pool_map(_task2, [(two[i::common.NCPU], p) for i in range(common.NCPU) if two[i::common.NCPU]], init=_init)
    agg, shapes = {}, set()
    for r in results:
        common.merge_counts(agg, r["st"])
        shapes |= r["shapes"]
        for v in r["viols"].values():
            ctx.violations.append({"sig": v["sig"], "case": v["case"], "what": v["what"] + " (x%d)" % v["count"]})
    e1r = _e1_task(3)
    if "error" in e1r:
        ctx.harness_errors.append("E1-through-snarkjs child failed: " + e1r["error"])
    else:
        agg["e1_program_traces"] = e1r["traces"]
        agg["traces"] += e1r["traces"]
        for v in e1r["viols"]:
            ctx.violations.append(v)
    from .. import e1
    e1.dedupe_violations(ctx)
    ctx.cov.update(agg)
    ctx.cov["executions"] = agg["traces"]
    ctx.cov["states"] = len(shapes)
    ctx.cov["distinct_outcomes"] = len(shapes)
    ctx.cov["traces_validated_against_impl"] = agg["files_decoded"] // 2 + agg.get("e1_program_traces", 0)
    ctx.cov["exhaustive"] = True
    ctx.cov["rule"] = ("trace = 0..3 variable declarations (public/private x value classes 0,1,2,-1,-2,p-1,p,p+1,2^256-1,"
                       "2^256+5,-(p+3)) followed by 0..2 constraints whose three sides range over a menu of 2-13 linear "
                       "combinations (zero, one, variables, sums, zero coefficients, cancelled terms, coefficients >= p, "
                       "negative and > 256-bit coefficients); every trace is serialised by the backend's prove() and decoded; "
                       "plus generated large traces (9001 variables / 4500 constraints; thorough 70001 / 66000); plus every E1 depth-1 program traced through the real backend; states = distinct (npub, npriv, "
                       "nconstraints) shapes")
    ctx.sample({"trace": e5.spec_str(traces[0], p)})
    ctx.sample({"trace": e5.spec_str(traces[len(traces) // 2], p)})


def replay(case):
    _init()
    from ..recorder import BN128 as p
    if "two" in case:
        h = case["two"]
        h = {"vars1": [tuple(v) for v in h["vars1"]], "vars2": [tuple(v) for v in h["vars2"]],
             "cons1": [tuple(c) for c in h["cons1"]], "cons2": [tuple(c) for c in h["cons2"]]}
        r = _task2(([h], p))
        return {"history": h, "violations": [{"klass": v["sig"]["klass"], "what": v["what"]} for v in r["viols"].values()]}
    spec = e5.expand(case["spec"], p)
    _reset()
    e5.build(_B, spec, p)
    _B.prove()
    pub, priv, cons = e5.expected(spec, p)
    vs = check_files(pub, priv, cons, p, None)
    return {"trace": e5.spec_str(spec, p), "violations": [{"klass": k, "what": t} for k, t in vs]}


def _child_main(n):
    """python -m pv.checks.c10 <n>: E1 depth-1 programs through the real snarkjs backend."""
    import json
    sys.path.insert(0, common.VERIF)
    from .. import harness as H, opseq as E, ops as O
    H.bind_real("pysnark.snarkjsbackend")
    B = H.R.mod
    tmp = tempfile.mkdtemp(prefix="pv-c10e1-")
    os.chdir(tmp)
    real_stderr = sys.stderr
    sys.stderr = open(os.devnull, "w")
    p = B.get_modulus()
    vals = [-(2 ** n + 1), -1, 0, 1, 3, 2 ** n - 1]
    out = {"traces": 0, "viols": []}
    seen = set()
    try:
        for prog in E.depth1_programs():
            name = O.expr_str(prog["expr"], prog["kinds"])
            for vec in E.input_vectors(prog, vals):
                for mode in ("plain", "ign", "g0"):
                    o = E.execute(prog, vec, mode, n)
                    pub, priv = list(B.pubvals), list(B.privvals)
                    cons = []
                    for a, b, c in B.constraints:
                        tri = []
                        for lc in (a, b, c):
                            d = {}
                            for k, co in lc.lc.items():
                                nm = "one" if k == 0 else (("pub", k) if k > 0 else ("priv", -k))
                                if co % p:
                                    d[nm] = co % p
                            tri.append(d)
                        cons.append(tuple(tri))
                    B.prove()
                    out["traces"] += 1
                    for klass, text in check_files(pub, priv, cons, p, None):
                        if klass in seen:
                            continue
                        seen.add(klass)
                        out["viols"].append({"sig": {"klass": klass}, "what": "%s on %s (%s): %s" % (name, list(vec), mode, text),
                                             "case": {"e1": name, "vals": list(vec), "mode": mode}})
        # cross-feature compositions (pv/xfeat.py) through the real backend and its serializer: first and last input
        # vector of every program, live and under a false guard
        from .. import xfeat as X
        xprogs = []
        for first in X.FIRST:
            xprogs += X.enumerate_from(first, 2, X.NEXT_OPS[:44])
        out["xfeat_programs"] = len(xprogs)
        for prog in xprogs:
            vecs = X.vectors(prog)
            for vec in ([vecs[0], vecs[-1]] if len(vecs) > 1 else vecs):
                for mode in ("plain", "g0"):
                    r = X.execute(prog, vec, mode)
                    if r.status != "ok":
                        continue
                    pub, priv = list(B.pubvals), list(B.privvals)
                    cons = []
                    for a, b, c in B.constraints:
                        tri = []
                        for lc in (a, b, c):
                            d = {}
                            for k, co in lc.lc.items():
                                nm = "one" if k == 0 else (("pub", k) if k > 0 else ("priv", -k))
                                if co % p:
                                    d[nm] = co % p
                            tri.append(d)
                        cons.append(tuple(tri))
                    B.prove()
                    out["traces"] += 1
                    for klass, text in check_files(pub, priv, cons, p, None):
                        if ("x", klass) in seen:
                            continue
                        seen.add(("x", klass))
                        out["viols"].append({"sig": {"klass": klass, "engine": "xfeat"}, "what": "cross-feature program [%s] on %s (%s): %s" % (X.prog_str(prog), list(vec), mode, text),
                                             "case": {"xprog": [list(s_) for s_ in prog], "vals": list(vec), "mode": mode}})
    finally:
        os.chdir("/")
        shutil.rmtree(tmp, True)
    sys.stdout.write(json.dumps(out))
    sys.stdout.flush()
    os._exit(0)


if __name__ == "__main__":
    _child_main(int(sys.argv[1]))
