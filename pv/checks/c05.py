"""C05: traced arithmetic agrees with plain Python integer semantics, or raises; inside the
documented domain it does not raise."""
from .. import e1
from .. import opseq as E
from .. import ops as O
from . import _e1common as X
from .. import recorder as REC

WANT_STEPS = True
MODES = ("plain",)


def _cong(a, b, p):
    if isinstance(a, int) and isinstance(b, int):
        return (a - b) % p == 0
    if isinstance(a, (tuple, list)) and isinstance(b, (tuple, list)) and len(a) == len(b):
        return all(_cong(x, y, p) for x, y in zip(a, b))
    return a == b


def oracle(prog, vec, mode, n, p, o, extra):
    for op, ak, idx, v0, v1 in (getattr(o, "mutated", None) or [])[:1]:
        yield ({"op": op, "kinds": ak, "klass": "operand-changed-by-call"},
               "%s on %s (bitlength %d): %s changed its operand #%d (an existing object) from value %r to %r - Python integers "
               "are immutable, every later use of that object is affected" % (O.expr_str(prog["expr"], prog["kinds"]), list(vec), n, op, idx, v0, v1))
    ref = O.ref_steps(prog["expr"], prog["kinds"], vec, n)
    got = o.steps
    name = O.expr_str(prog["expr"], prog["kinds"])
    extra.setdefault("ok_in_domain", 0)
    okstep = extra.setdefault("ok_at_step", {})
    for i, (op, args, kind, val, dom) in enumerate(ref):
        if kind == "any":
            return
        if i < len(got):
            gop, gak, gval = got[i]
            if kind == "raise":
                yield ({"op": op, "kinds": gak, "klass": "value-where-python-raises",
                        "signs": O.signs(args)},
                       "%s on %s (bitlength %d): %s%s returned %r although the plain expression has no value"
                       % (name, list(vec), n, op, tuple(int(a) for a in args), gval))
                return
            want = O.ref_plain(val)
            if gval != want:
                klass = "wrong-value-congruent-mod-p" if _cong(gval, want, p) else "wrong-value"
                yield ({"op": op, "kinds": gak, "klass": klass, "signs": O.signs(args)},
                       "%s on %s (bitlength %d): %s%s returned %r, Python gives %r"
                       % (name, list(vec), n, op, tuple(int(a) for a in args), gval, want))
                return
            okstep[i] = okstep.get(i, 0) + 1
            if dom:
                extra["ok_in_domain"] += 1
        else:
            # the library raised at step i
            if kind == "value" and dom and all(r[4] for r in ref[:i]):
                pend = extra.setdefault("pending", [])
                if len(pend) < 400:
                    anyb = any(isinstance(a, O.RB) for a in args)
                    pend.append((op, O.signs(args), o.exc, [int(a) for a in args], list(vec), o.excmsg, i, anyb))
            return


def oracle_final(prog, n, p, extra):
    pend = extra.get("pending") or []
    if not pend:
        return
    name = O.expr_str(prog["expr"], prog["kinds"])
    okstep = extra.get("ok_at_step", {})
    for op, sg, exc, args, vec, msg, step, anyb in pend:
        if anyb and okstep.get(step, 0) == 0:
            # an operation on a boolean-typed operand that is not offered for these operand
            # types at all (it raises for every value in the sweep: TypeError / "Wrong type" /
            # missing method): not a value-dependent failure, outside the statement's domain.
            # Pure integer programs get no such allowance.
            extra["ill_typed"] = 1
            continue
        yield ({"op": op, "klass": "raises-in-domain", "exc": exc, "signs": sg},
               "%s on %s (bitlength %d): %s%s raises %s (%s) although the operands are inside the documented domain"
               % (name, vec, n, op, tuple(args), exc, msg),
               {"prog": prog, "vals": vec, "mode": "plain", "n": n, "p": p})


def run(ctx):
    from .. import xfeat
    xfeat.sweep(ctx, "C05")      # cross-feature compositions (pv/xfeat.py)
    cfg = e1.standard_configs(ctx)
    extras = e1.sweep(ctx, E.depth1_programs(include_assert=False), cfg, "pv.checks.c05.oracle", modes=MODES)
    from ..recorder import BN128
    extras += e1.sweep(ctx, E.huge_programs(), [(16, pp, E.huge_lattice(pp)) for pp in ([BN128] if not ctx.thorough else list(REC.REAL_FIELDS.values()))],
                       "pv.checks.c05.oracle", modes=MODES)
    d2 = X.depth2_family(ctx)
    cfg2 = [(2, BN128, E.D(2)), (3, BN128, E.D(2))] if ctx.thorough else [(3, BN128, E.D(2))]
    extras += e1.sweep(ctx, d2, cfg2, "pv.checks.c05.oracle", modes=MODES)
    e1.wide_sweep(ctx, "pv.checks.c05.oracle", MODES, include_assert=False)
    X.structured_sweep(ctx, "pv.checks.c05.oracle", MODES, fxp=False)
    X.long_run(ctx, "wrong")
    e1.bfs_sweep(ctx, {"wrong-value", "wrong-value-congruent-mod-p", "same-state-different-future"}, ctx.thorough)
    e1.dedupe_violations(ctx)
    ctx.cov["ill_typed_programs_skipped"] = sorted({nm for nm, ex in extras if ex.get("ill_typed")})
    ctx.cov["in_domain_steps_checked"] = sum(ex.get("ok_in_domain", 0) for _, ex in extras)
    ctx.cov["traces_validated_against_impl"] = ctx.cov["executions"]
    ctx.cov["exhaustive"] = True
    ctx.cov["rule"] = ("every depth-1 program (19 binary operators x SS/SK/KS, unary operators, selection, "
                       "boolean operators x BB/BK/KB/BS/SB) on all input vectors of D(2), D(3) and the "
                       "boundary lattices, depth-2 compositions on D(2); every API call's returned value is "
                       "compared with the plain-Python reference (pv/ops.py); raising is accepted outside the "
                       "no-raise domain only")
    ctx.sample({"program": "floordiv(S0, S1)", "inputs": [-5, 3], "reference": -2, "bitlength": 3})


def replay(case):
    if isinstance(case, dict) and case.get("xfeat"):
        from .. import xfeat
        return xfeat.replay(case, "C05")
    out = X.replay_case(case, oracle)
    return out
