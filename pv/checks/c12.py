"""C12: qaptools equation / wire / I-O files are consistent and split faithfully.

E5 on pysnark.qaptools.backend with failing tool stubs (QAPTOOLS_BIN): flat traces of the bounded
alphabet and ALL call histories of @subqap functions up to a bound; after the backend's own prove()
(which runs the pure-Python split before the first external tool fails) every file is read back by
an independent reader (pv/decoders/qap.py)."""
import io
import itertools
import json
import os
import random
import shutil
import subprocess
import sys
import tempfile

from .. import common
from .. import e5
from ..decoders import qap

STUBS = os.path.join(common.VERIF, "pv", "shims", "qaptools_bin")
_Q = {}


def _init():
    sys.set_int_max_str_digits(0)      # chained products of > 256-bit inputs are written in decimal
    if common.TREE not in sys.path:
        sys.path.insert(0, common.TREE)
    os.environ["QAPTOOLS_BIN"] = STUBS
    os.environ.pop("PYSNARK_BACKEND", None)
    for k in ("PYSNARK_KEYDIR", "PYSNARK_PROOFDIR"):
        os.environ.pop(k, None)
    base = tempfile.mkdtemp(prefix="pv-c12-")
    os.chdir(base)
    from multiprocessing import util
    util.Finalize(None, shutil.rmtree, args=(base, True), exitpriority=1)
    import atexit
    atexit.register(shutil.rmtree, base, True)
    real_err = sys.stderr
    sys.stderr = io.StringIO()
    import pysnark.qaptools.backend as qb
    import pysnark.runtime as rt
    import pysnark.qaptools.qapsplit as qs
    if rt.backend is not qb:
        raise RuntimeError("qaptools backend not selected: %s" % rt.backend_name)
    if not os.path.realpath(qb.__file__).startswith(os.path.realpath(common.TREE)):
        raise RuntimeError("backend imported from " + qb.__file__)
    rt.autoprove = False
    _Q.update(qb=qb, rt=rt, qs=qs, base=base, n=0, err=real_err)


def qreset():
    qb, rt, qs = _Q["qb"], _Q["rt"], _Q["qs"]
    for nm in ("qape", "qapv", "qapvo"):
        f = getattr(qb, nm)
        if f is not None:
            try:
                f.close()
            except Exception:  # noqa: BLE001
                pass
        setattr(qb, nm, None)
    qb.vc_ctx = None
    qb.vc_ctr.clear()
    qb.vc_ioctr.clear()
    qs.eqs.clear()
    qs.blocks.clear()
    rt.guard = None
    rt._ignore_errors = False
    rt.LinComb.ONE = rt.LinComb.ONE_SAFE
    _Q["n"] += 1
    d = os.path.join(_Q["base"], "t%d" % _Q["n"])
    os.mkdir(d)
    os.chdir(d)
    return d


def prove_and_capture():
    """Run the backend's prove(); returns (stderr text, exception or None).  Afterwards the
    equation file handle is flushed so that the COMPLETE trace can be compared with what the
    split saw."""
    qb = _Q["qb"]
    err = io.StringIO()
    old = sys.stderr
    sys.stderr = err
    exc = None
    try:
        qb.prove()
    except Exception as ex:  # noqa: BLE001
        exc = ex
    finally:
        sys.stderr = old
    for nm in ("qape", "qapv", "qapvo"):
        f = getattr(qb, nm)
        if f is not None:
            f.flush()
    return err.getvalue(), exc


# ------------------------------------------------------------------------------------------------
# oracles shared by flat traces and call histories

def check_common(p, proved_err, exc, expect_sat=True):
    """Reads the files in cwd.  Returns (violations [(klass, text)], info)."""
    out = []
    info = {"digests": {}}
    wires, dup1 = qap.read_values("pysnark_wires")
    ios, dup2 = qap.read_values("pysnark_values")
    for d in dup1 + dup2:
        out.append(("duplicate-wire-name", "wire %s written twice" % d))
    vals = dict(wires)
    vals.update(ios)
    items = qap.parse_eqs(open("pysnark_eqs").read())
    eqs = [it for it in items if it[0] == "eq"]
    info["n_eqs"] = len(eqs)
    # 1. every equation holds mod p on the written values
    for e in eqs:
        if not expect_sat and e[5]:
            continue        # arbitrary flat trace whose own witness does not satisfy its constraints
        try:
            if not qap.eq_holds(e, vals, p):
                out.append(("equation-not-satisfied", "equation `%s` does not hold on the wire/io values" % e[4][:120]))
                break
        except KeyError as ke:
            out.append(("equation-mentions-unknown-wire", "equation `%s`: wire %s has no value" % (e[4][:80], ke)))
            break
    # 2. every public value: io entry equal to its wire, tied by a linking equation
    links = {}
    for e in eqs:
        if not e[1] and not e[2] and len(e[3]) == 2:
            (c1, n1), (c2, n2) = e[3]
            if "/o_" in n2 and (c1 + c2) % p == 0:
                links[n2] = n1
    for nm, v in ios.items():
        if nm not in links:
            out.append(("io-value-not-linked", "public value %s has no linking equation" % nm))
        elif (vals.get(links[nm], None) is None) or (vals[links[nm]] - v) % p:
            out.append(("io-value-differs-from-wire", "public value %s = %s but its wire %s = %s" % (nm, v, links[nm], vals.get(links[nm]))))
    # 3. per-function files contain every traced equation, in the context of its variables
    fns = [(it[2], it[1]) for it in items if it[0] == "function"]          # (call ctx, fname)
    per_ctx = {}
    for it in items:
        if it[0] == "eq":
            cs = qap.eq_context(it)
            if len(cs) > 1:
                out.append(("equation-mixes-contexts", "equation `%s` mentions wires of contexts %s" % (it[4][:100], sorted(cs))))
                continue
            c = next(iter(cs)) if cs else None
            per_ctx.setdefault(c, []).append(qap.strip_ctx(it[4]))
        elif it[0] == "ioblock":
            bad = [w for w in it[3] if qap.ctx_of(w) != it[1]]
            if bad:
                out.append(("ioblock-wire-of-other-context", "[ioblock] %s %s lists %s" % (it[1], it[2], bad)))
            per_ctx.setdefault(it[1], []).append("[ioblock] " + it[2] + " " + " ".join(w.partition("/")[2] for w in it[3]))
    norm = {c: sorted(per_ctx.get(c, [])) for c, _ in fns}
    by_name = {}
    for c, f in fns:
        by_name.setdefault(f, []).append(c)
    inconsistent = [f for f, cs in by_name.items() if len({tuple(norm[c]) for c in cs}) > 1]
    info["inconsistent"] = inconsistent
    raised_incons = isinstance(exc, ValueError) and "Inconsistent functions" in str(exc)
    if inconsistent and not raised_incons:
        out.append(("inconsistent-calls-not-reported", "calls of %s have different equation sets but prove() did not report it (%r)" % (inconsistent, exc)))
    if raised_incons and not inconsistent:
        out.append(("spurious-inconsistency", "prove() reports %s but all calls of each function have identical equation sets" % exc))
    if exc is not None and not raised_incons:
        out.append(("prove-raised", "prove() raised %s: %s" % (type(exc).__name__, str(exc)[:120])))
    if not inconsistent and exc is None:
        for f, cs in by_name.items():
            path = "pysnark_eqs_" + f
            if not os.path.exists(path):
                out.append(("function-file-missing", path))
                continue
            got = [ln for ln in open(path).read().split("\n") if ln != ""]
            want = norm[cs[0]]
            if sorted(got) != want:
                missing = [w for w in want if w not in got]
                extra = [g for g in got if g not in want]
                out.append(("function-file-misses-equations" if missing else "function-file-has-extra-lines",
                            "%s: missing %s extra %s" % (path, missing[:3], extra[:3])))
        # digests from the split's report
        for ln in proved_err.splitlines():
            if "digest:" in ln:
                t = ln.split()
                cid, f, dg = t[t.index("id:") + 1], t[t.index("function:") + 1], t[t.index("digest:") + 1]
                info["digests"].setdefault(f, set()).add(dg)
                if cid in norm:
                    info.setdefault("norm_digest", []).append(("\n".join(norm[cid]), dg))
        for f, ds in info["digests"].items():
            if len(ds) > 1:
                out.append(("same-function-different-digests", "%s: %s" % (f, sorted(ds))))
        sched = open("pysnark_schedule").read().splitlines() if os.path.exists("pysnark_schedule") else []
        sf = [ln.split()[1] for ln in sched if ln.startswith("[function]")]
        if sf != [c for c, _ in fns]:
            out.append(("schedule-functions", "schedule lists calls %s, trace has %s" % (sf[:5], [c for c, _ in fns][:5])))
        sg = [tuple(ln.split()[1:]) for ln in sched if ln.startswith("[glue]")]
        if sg != [it[1:] for it in items if it[0] == "glue"]:
            out.append(("schedule-glue", "schedule glue entries differ from the trace"))
    # 5. glue: paired blocks list the same number of wires with pairwise equal values and equal rnd1
    blocks = {(it[1], it[2]): it[3] for it in items if it[0] == "ioblock"}
    glues = [it for it in items if it[0] == "glue"]
    info["glues"] = []
    for g in glues:
        b1, b2 = blocks.get((g[1], g[2])), blocks.get((g[3], g[4]))
        if b1 is None or b2 is None:
            out.append(("glue-without-block", "[glue] %s refers to an undeclared block" % (g[1:],)))
            continue
        if len(b1) != len(b2):
            out.append(("glue-block-lengths", "[glue] %s: blocks list %d and %d wires" % (g[1:], len(b1), len(b2))))
            continue
        for w1, w2 in zip(b1, b2):
            if (vals[w1] - vals[w2]) % p:
                out.append(("glue-values-differ", "[glue] %s: %s=%s but %s=%s" % (g[1:], w1, vals[w1], w2, vals[w2])))
                break
        r1, r2 = vals.get("%s/rnd1_%s" % (g[1], g[2])), vals.get("%s/rnd1_%s" % (g[3], g[4]))
        if r1 is None or r1 != r2:
            out.append(("glue-rnd1-differ", "[glue] %s: rnd1 %s vs %s" % (g[1:], r1, r2)))
        info["glues"].append((g[1], g[3], [vals[w] % p for w in b1]))
    return out, info


# ------------------------------------------------------------------------------------------------
# (a) flat traces

def run_flat(spec, p):
    qb = _Q["qb"]
    qreset()
    e5.build(qb, spec, p)
    err, exc = prove_and_capture()
    pub, priv, cons = e5.expected(spec, p)
    sat = e5.satisfied(pub, priv, cons, p)
    out, info = check_common(p, err, exc, expect_sat=sat)
    info["sat"] = sat
    # traced constraints appear, in order, with the expected coefficients
    items = qap.parse_eqs(open("pysnark_eqs").read())
    eqs = [it for it in items if it[0] == "eq" and it[5]]
    names = {"one": "main/onex"}
    npub = npriv = 0
    for i, (kind, _) in enumerate(spec["vars"], 1):
        if kind == "pub":
            npub += 1
            names[("pub", npub)] = "main/%d" % i
        else:
            npriv += 1
            names[("priv", npriv)] = "main/%d" % i
    if len(eqs) != len(cons):
        out.append(("constraint-count", "%d product equations in the file, %d constraints traced" % (len(eqs), len(cons))))
    else:
        for ci, (e, exp) in enumerate(zip(eqs, cons)):
            for side, (sig, ex) in enumerate(zip(e[1:4], exp)):
                got = {}
                for c, nm in sig:
                    got[nm] = (got.get(nm, 0) + c) % p
                got = {k: v for k, v in got.items() if v}
                want = {names[k]: c for k, c in ex.items()}
                if got != want:
                    out.append(("constraint-differs", "constraint %d side %s: file %s, traced %s" % (ci, "ABC"[side], got, want)))
                    break
    wires, _ = qap.read_values("pysnark_wires")
    for i, (kind, v) in enumerate(spec["vars"], 1):
        if (wires.get("main/%d" % i, None) is None) or (wires["main/%d" % i] - v) % p:
            out.append(("wire-value-differs", "main/%d = %s, traced %s" % (i, wires.get("main/%d" % i), v)))
            break
    return out, info


# ------------------------------------------------------------------------------------------------
# (b) call histories of @subqap functions

BODIES = {
    "sq": (1, 1, lambda F: (lambda a: a * a)),
    "sqp1": (1, 1, lambda F: (lambda a: a * a + 1)),
    "mul": (2, 1, lambda F: (lambda a, b: a * b)),
    "const": (1, 0, lambda F: (lambda a: 5)),
    "two": (2, 2, lambda F: (lambda a, b: [a * b, a + b])),
    "nest": (1, 1, lambda F: (lambda a: _first(F["f"](a, a) if F["f"].nargs == 2 else (F["f"]() if F["f"].nargs == 0 else (F["f"](5) if F["f"].nargs == -1 else F["f"](a)))) * a)),
    "lin": (2, 1, lambda F: (lambda a, b: a * 2 - b)),
    # value-preserving bodies for long histories: one product, and 4200 products (more than 4096 equations in one function)
    "keep": (1, 1, lambda F: (lambda a: a * (a * 0 + 1))),
    "bigbody": (1, 1, lambda F: (lambda a: _repeat_keep(a, 4200))),
    # no wire among the arguments: nothing / a plain number goes in, a computed wire comes out
    "noarg": (0, 1, lambda F: (lambda: _Q["rt"].PrivVal(3) * _Q["rt"].PrivVal(4))),
    "plainarg": (-1, 1, lambda F: (lambda k: _Q["rt"].PrivVal(k) * _Q["rt"].PrivVal(k + 1))),
}


def _repeat_keep(a, n):
    t = a
    for _ in range(n):
        t = t * (a * 0 + 1)
    return t


def _first(r):
    return r[0] if isinstance(r, list) else r


def histories(level):
    fb = ["sq", "sqp1", "mul", "const", "two", "lin", "noarg", "plainarg"]
    gb = ["sq", "mul", "two", "nest", "lin"] if level == 0 else ["sq", "sqp1", "mul", "const", "two", "nest", "lin"]
    seqs = []
    for ln in (1, 2, 3) if level == 0 else (1, 2, 3, 4):
        seqs += list(itertools.product("fg", repeat=ln))
    inputs = [(3, -4), (0, 0)] if level == 0 else [(3, -4), (0, 0), ("p+1", "2^256+5"), (-1, "p-1")]
    out = []
    for bf in fb:
        for bg in gb:
            for s in seqs:
                if "g" not in s and bg != gb[0]:
                    continue
                if "f" not in s and bg != "nest" and bf != fb[0]:
                    continue
                for inp in inputs:
                    for form in ("plain", "composite", "scaled", "cancelled"):
                        if form != "plain" and inp != inputs[0] and level == 0:
                            continue
                        out.append({"f": bf, "g": bg, "seq": "".join(s), "inp": inp, "form": form})
    # sizes: 40 (thorough 300) calls in one run; a function with more than 4096 equations, called once and twice
    out.append({"f": "keep", "g": "sq", "seq": "f" * (40 if level == 0 else 300), "inp": (3, -4), "form": "plain"})
    out.append({"f": "keep", "g": "keep", "seq": "fg" * 20, "inp": (3, -4), "form": "composite"})
    out.append({"f": "bigbody", "g": "sq", "seq": "f", "inp": (3, -4), "form": "plain"})
    out.append({"f": "bigbody", "g": "keep", "seq": "fgf", "inp": (3, -4), "form": "plain"})
    return out


def _val(x, p):
    if isinstance(x, str):
        return {"p+1": p + 1, "2^256+5": 2 ** 256 + 5, "p-1": p - 1}[x]
    return x


def run_history(h, p):
    qb, rt = _Q["qb"], _Q["rt"]
    qreset()
    F = {}
    calls = []          # (fname, arg values, result values) in completion order

    def wrap(name, body):
        nargs, nres, mk = BODIES[body]
        fn = mk(F)
        dec = qb.subqap(name)(fn)

        def call(*args):
            r = dec(*args)
            res = r if isinstance(r, list) else [r]
            calls.append((name, [a.value for a in args if isinstance(a, rt.LinComb)], [x.value for x in res if isinstance(x, rt.LinComb)]))
            return r
        call.nargs = nargs
        return call

    F["f"] = wrap("f", h["f"])
    F["g"] = wrap("g", h["g"])
    x = rt.PubVal(_val(h["inp"][0], p))
    y = rt.PrivVal(_val(h["inp"][1], p))
    cur = x
    exc = None
    try:
        form = h.get("form", "plain")
        for c in h["seq"]:
            fn = F[c]
            # argument forms: bare wires, two-term combinations (need a fresh caller-side wire each),
            # scaled single wires
            a1, a2 = {"plain": (cur, y), "composite": (cur + 1, y + 2), "scaled": (cur * 3, y * (-1)),
                      # one wire whose linear combination still carries a cancelled / zero-scaled other wire
                      "cancelled": ((y + cur) - y, cur * 0 + y)}[form]
            r = fn(a1, a2) if fn.nargs == 2 else (fn() if fn.nargs == 0 else (fn(5) if fn.nargs == -1 else fn(a1)))
            first = r[0] if isinstance(r, list) else r
            if isinstance(first, rt.LinComb):
                cur = first
        (cur * y).val() if isinstance(cur, rt.LinComb) else None
    except Exception as ex:  # noqa: BLE001
        exc = ex
    if exc is not None:
        return [("history-raised", "%s: %s" % (type(exc).__name__, str(exc)[:120]))], {}
    err, pexc = prove_and_capture()
    out, info = check_common(p, err, pexc)
    # every call is tied to its caller by a glue listing ALL its arguments and results, in order
    glues = info.get("glues", [])
    if len(glues) != len(calls):
        out.append(("glue-count", "%d calls, %d [glue] entries" % (len(calls), len(glues))))
    else:
        for (name, a, r), (c1, c2, vs) in zip(calls, glues):
            want = [v % p for v in a + r]
            if vs != want:
                out.append(("glue-does-not-list-arguments-and-results",
                            "call of %s: glue block carries %s, arguments+results are %s" % (name, vs[:6], want[:6])))
                break
    return out, info


INCONSISTENT = {
    # pairs of bodies of ONE function name with different equation sets
    "square-vs-cube": (lambda a, b: a * a, lambda a, b: a * a * a),
    # ... whose equation texts differ only in where digit strings split into coefficient / wire index
    # ("1 1 1 2 * 1 2" against "111 2 * 1 2"): a digest that ignores token boundaries cannot tell them apart
    "token-boundaries-1": (lambda a, b: (a + b) * b, lambda a, b: (b * 111) * b),
    "token-boundaries-2": (lambda a, b: (a + b) * a, lambda a, b: (b * 111) * a),
    "coefficient-vs-two-terms": (lambda a, b: (a * 12 + b) * b, lambda a, b: (a + b * 21) * b),
}


def run_inconsistent(p, which="square-vs-cube"):
    """A function whose body depends on a public Python value, called with two different values."""
    qb, rt = _Q["qb"], _Q["rt"]
    qreset()
    k = [0]
    f0, f1 = INCONSISTENT[which]

    @qb.subqap("h")
    def hfn(a, b):
        return f0(a, b) if k[0] == 0 else f1(a, b)
    x, y = rt.PrivVal(3), rt.PrivVal(5)
    hfn(x, y)
    k[0] = 1
    hfn(x, y)
    err, exc = prove_and_capture()
    out, info = check_common(p, err, exc)
    if not info.get("inconsistent"):
        out.append(("harness", "inconsistent history did not produce different equation sets"))
    return out, info


def _task(t):
    kind, chunk, p = t
    st = {"traces": 0, "transitions": 0, "equations_checked": 0, "glues_checked": 0, "files_decoded": 0}
    viols = {}
    nd = []
    for spec in chunk:
        if kind == "flat":
            res, info = run_flat(spec, p)
            desc = e5.spec_str(spec, p)
            st["transitions"] += len(spec["vars"]) + len(spec["cons"]) + 1
        elif kind == "hist":
            res, info = run_history(spec, p)
            desc = "f=%s g=%s calls=%s inputs=%s args=%s" % (spec["f"], spec["g"], spec["seq"], spec["inp"], spec.get("form"))
            st["transitions"] += len(spec["seq"]) + 1
        else:
            res, info = run_inconsistent(p, spec or "square-vs-cube")
            desc = "inconsistent function h (%s) called twice" % (spec or "square-vs-cube")
        st["traces"] += 1
        st["equations_checked"] += info.get("n_eqs", 0)
        st["glues_checked"] += len(info.get("glues", []))
        st["files_decoded"] += 4
        nd += info.get("norm_digest", [])
        for klass, text in res:
            sig = {"klass": klass, "kind": kind}
            k = common.sig_hash(sig)
            if k not in viols:
                viols[k] = {"sig": sig, "count": 0, "what": "%s: %s" % (desc, text), "case": {"kind": kind, "spec": e5.compact(spec) if kind == "flat" else spec}}
            viols[k]["count"] += 1
        os.chdir(_Q["base"])
        shutil.rmtree(os.path.join(_Q["base"], "t%d" % _Q["n"]), True)
    return {"st": st, "viols": viols, "norm_digest": list(set(nd))}


def flat_specs(level, p):
    sp = [s for s in e5.traces(0, p) if len(s["vars"]) <= 2 and len(s["cons"]) <= 1]
    if level == 0:
        sp = sp[::5]
    # traces with no public value at all and with trailing unflushed equations matter here
    # one large trace: more than 4096 equations in one function context (thorough: more than 65536)
    sp = [e5.big_trace(300, 4500, p)] + ([e5.big_trace(3000, 66000, p)] if level >= 1 else []) + sp
    return sp


def fresh_process_crosscheck(ctx, specs, p):
    """A few histories are replayed each in a FRESH interpreter (the backend keeps file handles and
    counters at module level); verdicts must agree with the in-process runs."""
    env = dict(os.environ, PYTHONHASHSEED="0")
    n = 0
    for spec in specs:
        r = subprocess.run([common.PY, "-m", "pv.checks.c12", json.dumps(spec)], cwd=common.VERIF, env=env,
                           capture_output=True, text=True, start_new_session=True)
        if r.returncode != 0:
            ctx.harness_errors.append("fresh-process history failed: " + r.stderr[-300:])
            continue
        got = json.loads(r.stdout)
        n += 1
        _init_once()
        res, _ = run_history(spec, p)
        os.chdir(_Q["base"])
        if sorted(k for k, _ in res) != sorted(got):
            ctx.harness_errors.append("fresh process and pooled worker disagree on %s: %s vs %s" % (spec, got, [k for k, _ in res]))
    return n


def _init_once():
    if not _Q:
        _init()


def run(ctx):
    from ..recorder import BN128 as p
    level = 1 if ctx.thorough else 0
    flats = flat_specs(level, p)
    hists = histories(level)
    random.Random(ctx.seed).shuffle(flats)
    random.Random(ctx.seed).shuffle(hists)
    n = common.NCPU * 3
    tasks = [("flat", flats[i::n], p) for i in range(n)] + [("hist", hists[i::n], p) for i in range(n)] + [("incons", list(INCONSISTENT), p)]
    tasks = [t for t in tasks if t[1]]
    results = common.pool_map(_task, tasks, init=_init)
    agg = {}
    nd = set()
    for r in results:
        common.merge_counts(agg, r["st"])
        nd |= set(map(tuple, r["norm_digest"]))
        for v in r["viols"].values():
            ctx.violations.append({"sig": v["sig"], "case": v["case"], "what": v["what"] + " (x%d)" % v["count"]})
    # distinct normalised equation sets <-> distinct digests, over everything explored
    by_norm, by_dig = {}, {}
    for norm, dg in nd:
        by_norm.setdefault(norm, set()).add(dg)
        by_dig.setdefault(dg, set()).add(norm)
    for norm, ds in by_norm.items():
        if len(ds) > 1:
            ctx.violation({"klass": "same-equations-different-digests"}, {"norm": norm}, "one equation set got digests %s" % sorted(ds))
    for dg, ns in by_dig.items():
        if len(ns) > 1:
            ctx.violation({"klass": "different-equations-same-digest"}, {"digest": dg}, "digest %s stands for %d different equation sets" % (dg, len(ns)))
    nfresh = fresh_process_crosscheck(ctx, hists[:: max(1, len(hists) // (12 if not ctx.thorough else 60))], p)
    from .. import e1
    e1.dedupe_violations(ctx)
    ctx.cov.update(agg)
    ctx.cov["executions"] = agg["traces"]
    ctx.cov["states"] = len(by_norm)
    ctx.cov["distinct_outcomes"] = len(by_norm)
    ctx.cov["distinct_function_bodies_seen"] = len(by_norm)
    ctx.cov["traces_validated_against_impl"] = agg["traces"]
    ctx.cov["fresh_process_replays"] = nfresh
    ctx.cov["exhaustive"] = True
    ctx.cov["rule"] = ("(a) flat traces: 0..2 variables x value classes (negative, >= p, > 256 bit) x 0..1 constraints over the LC "
                       "menu; (b) all call histories of two @subqap functions f,g with bodies from a menu of 7 (product, "
                       "compound result, two results, constant result, linear, nested call of f) x call sequences of length "
                       "1..3 (4 thorough) x input classes, results fed to later calls; (c) an inconsistently defined function; "
                       "states = distinct normalised per-function equation sets observed")
    ctx.assumptions.append("the external qaptools executables are replaced by stubs that fail: only the files pysnark itself writes are checked")
    ctx.sample({"history": hists[0]})
    ctx.sample({"flat": e5.spec_str(flats[0], p)})


def replay(case):
    from ..recorder import BN128 as p
    _init_once()
    spec = case["spec"]
    if case["kind"] == "flat":
        spec = e5.expand(spec, p)
        res, _ = run_flat(spec, p)
    elif case["kind"] == "hist":
        spec["inp"] = tuple(spec["inp"])
        res, _ = run_history(spec, p)
    else:
        res, _ = run_inconsistent(p, spec if isinstance(spec, str) else "square-vs-cube")
    os.chdir("/")
    return {"case": case["kind"], "violations": [{"klass": k, "what": t} for k, t in res]}


if __name__ == "__main__":
    # fresh-process replay of one history: prints the list of violation classes
    spec = json.loads(sys.argv[1])
    spec["inp"] = tuple(spec["inp"])
    from pv.recorder import BN128
    _init()
    res, _ = run_history(spec, BN128)
    os.chdir("/")
    sys.stdout.write(json.dumps(sorted(k for k, _ in res)))
    sys.stdout.flush()
    shutil.rmtree(_Q["base"], True)
    os._exit(0)
