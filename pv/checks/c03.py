"""C03: assertions and declared types are enforced inside the circuit, with exactly the relation
the run-time check applies.

For every assertion program and every operand vector of the domain three facts are established on
the real code: accepted (the checked call returns), sat (the emitted system has a satisfying
assignment with the operands pinned to that vector - ALL witness choices enumerated by the exact
engine), rel (the documented relation on plain integers).  Oracle: sat == accepted, accepted =>
rel, and rel inside the width => accepted.  `sat` is computed two ways: on the system emitted by
an ignore_errors run on the vector itself, and on the system of an accepted run re-pinned to the
vector (the adversarial prover is not bound to run the honest code)."""
import itertools
import random

from .. import common
from .. import e2
from .. import harness as H
from .. import opseq as E
from .. import ops as O
from .. import recorder as REC
from .. import witness as W

I = lambda i: ("in", i)


def programs(n):
    P = []
    for name in O.ASSERT2:
        for kinds in (("S", "S"), ("S", "K"), ("B", "B"), ("B", "K"), ("B", "S")):
            # (S, B) is not an instance: LinComb.assert_xx(LinCombBool) is refused for every value
            # ("Wrong type for LinComb"), a type refusal and not an answer about the relation
            P.append({"expr": ("op", name, I(0), I(1)), "kinds": list(kinds)})
    for name in O.ASSERT1:
        P.append({"expr": ("op", name, I(0)), "kinds": ["S"]})
    # fixed-point operands (operand values are representation integers: the relation is the one on the representations)
    for name in O.ASSERT2:
        P.append({"expr": ("op", name, I(0), I(1)), "kinds": ["F", "F"]})
    for name in ("assert_zero", "assert_nonzero", "assert_positive"):
        P.append({"expr": ("op", name, I(0)), "kinds": ["F"]})
    P.append({"expr": ("op", "assert_zero", I(0)), "kinds": ["B"]})
    P.append({"expr": ("op", "assert_nonzero", I(0)), "kinds": ["B"]})
    for kinds in (("S", "K", "K"), ("S", "S", "S"), ("S", "K", "S")):
        P.append({"expr": ("op", "assert_range", I(0), I(1), I(2)), "kinds": list(kinds)})
    P.append({"expr": ("op", "assert_positive_w", I(0), I(1)), "kinds": ["S", "W"]})
    P.append({"expr": ("op", "to_bits_w", I(0), I(1)), "kinds": ["S", "W"]})
    P.append({"expr": ("op", "declare_bool", I(0)), "kinds": ["S"]})
    P.append({"expr": ("op", "ensure_bool", I(0)), "kinds": ["S"]})
    P.append({"expr": ("op", "privvalbool", I(0)), "kinds": ["V"]})
    P.append({"expr": ("op", "pubvalbool", I(0)), "kinds": ["V"]})
    # equality assertion on whole arrays (two elements each)
    for kinds in (("S", "S", "S", "S"), ("S", "S", "K", "S")):
        P.append({"expr": ("op", "array_assert_eq", I(0), I(1), I(2), I(3)), "kinds": list(kinds)})
    # packing a SECRET into the bits of IntMod(m) declares it a bitlen(m)-bit value (m = 2: a single bit)
    P.append({"expr": ("op", "pack_intmod", I(0), I(1)), "kinds": ["M", "S"]})
    for bk in ("B", "Z"):
        P.append({"expr": ("op", "unpack_intmod", I(0), I(1), I(2), I(3)), "kinds": ["M", bk, bk, bk]})
    return P


def domain(kind, n, vals):
    if kind in ("B", "Z"):
        return [0, 1]
    if kind == "W":
        return list(range(0, n + 2))        # width 0 declares "the value is 0"
    if kind == "M":
        return list(range(2, 9))
    return vals


def region(prog, vec, n):
    """Short label locating the vector relative to the relation's boundaries."""
    name = prog["expr"][1]
    v = list(vec)
    if name in O.ASSERT2:
        return O.signs([v[0] - v[1]])
    if name == "assert_range":
        return O.signs([v[0] - v[1], v[2] - v[0]])
    if name in ("assert_positive_w", "to_bits_w"):
        return O.signs([v[0], 2 ** v[1] - v[0]]) + ("w<n" if v[1] < n else "w=n" if v[1] == n else "w>n")
    if name == "unpack_intmod":
        val = sum(b << i for i, b in enumerate(v[1:1 + (v[0] - 1).bit_length()]))
        return O.signs([v[0] - val])
    if name == "pack_intmod":
        return O.signs([v[1], 2 ** ((v[0] - 1).bit_length()) - v[1]])
    if name == "assert_positive":
        return O.signs([v[0], 2 ** n - v[0]])
    return O.signs([v[0], v[0] - 1])


def fits(prog, vec, n):
    """Relation true AND all values the gadget decomposes fit the width: the call must be accepted."""
    name = prog["expr"][1]
    v = list(vec)
    lim = 2 ** n
    if prog["kinds"][0] == "B" and any(x not in (0, 1) for x in v):
        return False        # boolean compared with a non-boolean value: conversion may refuse
    if name in ("assert_lt", "assert_gt"):
        return abs(v[0] - v[1]) - 1 < lim
    if name in ("assert_le", "assert_ge"):
        return abs(v[0] - v[1]) < lim
    if name == "assert_range":
        return v[0] - v[1] < lim and v[2] - v[0] - 1 < lim
    if name == "assert_positive":
        return v[0] < lim
    if name == "unpack_intmod":
        val = sum(b << i for i, b in enumerate(v[1:1 + (v[0] - 1).bit_length()]))
        return v[0] - val - 1 < lim
    return True


def sat_of(inst, pins, p, st):
    try:
        sols, undec, s = W.exact(inst.cons, inst.nvars, pins, p)
    except W.Capped:
        st["capped"] += 1
        return None
    st["nodes"] += s["nodes"]
    if undec:
        st["undecided"] += 1
        return None
    return len(sols) > 0


def _pins(inst, prog, vec, p):
    pins = {}
    for ov, k, v in zip(inst.operand_vars, prog["kinds"], vec):
        if ov is not None:
            pins[ov] = v % p
    return pins


def _task(t):
    prog, n, p, vals = t
    name = O.expr_str(prog["expr"], prog["kinds"])
    kinds = prog["kinds"]
    st = {"vectors": 0, "accepted": 0, "sat_direct": 0, "sat_repin": 0, "unsat_direct": 0, "unsat_repin": 0,
          "nodes": 0, "undecided": 0, "capped": 0, "no_ign_system": 0, "no_base": 0}
    viols = {}

    def report(klass, via, vec, text):
        sig = {"op": prog["expr"][1], "kinds": "".join(kinds), "klass": klass, "via": via,
               "region": region(prog, vec, n)}
        k = common.sig_hash(sig)
        if k not in viols:
            viols[k] = {"sig": sig, "count": 0, "what": "%s on %s (bitlength %d): %s" % (name, list(vec), n, text),
                        "case": {"prog": prog, "vals": list(vec), "n": n, "p": p}}
        viols[k]["count"] += 1

    doms = [domain(k, n, vals) for k in kinds]
    const_idx = [i for i, k in enumerate(kinds) if k in ("K", "W", "M")]
    groups = {}
    for vec in itertools.product(*doms):
        groups.setdefault(tuple(vec[i] for i in const_idx), []).append(vec)
    for key, vecs in groups.items():
        base = None
        facts = []
        for vec in vecs:
            st["vectors"] += 1
            a = e2.build(prog, vec, "plain", n, p)
            accepted = a.status == "ok"
            if accepted:
                st["accepted"] += 1
                if base is None:
                    base = a
            try:
                rel = True
                O.ref_eval(prog["expr"], kinds, vec, n)
            except O.RefRaise:
                rel = False
            except O.RefAny:
                rel = None
            # (1) system emitted by the unchecked run on the vector itself
            d = e2.build(prog, vec, "ign", n, p)
            sat_d = None
            if d.status == "ok":
                sat_d = sat_of(d, _pins(d, prog, vec, p), p, st)
                if sat_d is not None:
                    st["sat_direct" if sat_d else "unsat_direct"] += 1
            else:
                st["no_ign_system"] += 1
            # (3) history: the same assertion on the same operand OBJECTS first ran inside an untaken
            #     branch; afterwards it must accept / enforce exactly what a first use does
            if "V" not in kinds:
                h = e2.build(prog, vec, "reuse", n, p)
                if (h.status == "ok") != accepted:
                    report("history-changes-acceptance", "after-untaken-branch", vec,
                           "after the same call in an untaken branch the checked call %s, a first use %s"
                           % ("returns" if h.status == "ok" else "raises " + str(h.exc), "returns" if accepted else "raises"))
                hi = e2.build(prog, vec, "reuse-ign", n, p)
                if hi.status == "ok":
                    pins = _pins(hi, prog, vec, p)
                    pins[len([k for k in kinds if k in ("S", "B", "Z", "P", "F")]) + 1] = 0     # the untaken condition
                    try:
                        sols, undec, s_ = W.exact(hi.cons, hi.nvars, pins, p, relevant=set(pins), honest=hi.assignment)
                        st["nodes"] += s_["nodes"]
                        if undec:
                            st["undecided"] += 1
                        elif bool(sols) != accepted:
                            report("circuit-accepts-what-check-rejects" if sols else "circuit-rejects-what-check-accepts",
                                   "after-untaken-branch", vec, "after the same call in an untaken branch the constraints emitted "
                                   "with error checking off are %s but a first checked call %s"
                                   % ("satisfiable" if sols else "unsatisfiable", "returns" if accepted else "raises"))
                    except W.Capped:
                        st["capped"] += 1
            facts.append((vec, accepted, rel, sat_d))
            if rel is False and accepted:
                report("check-accepts-false-relation", "python", vec, "the checked call returns although the relation is false")
            if rel is True and not accepted and fits(prog, vec, n):
                report("check-rejects-true-relation", "python", vec, "the checked call raises %s although the relation holds and fits the width" % a.exc)
            if sat_d is not None and sat_d != accepted:
                report("circuit-accepts-what-check-rejects" if sat_d else "circuit-rejects-what-check-accepts",
                       "direct", vec, "constraints emitted with error checking off are %s but the checked call %s"
                       % ("satisfiable" if sat_d else "unsatisfiable", "returns" if accepted else "raises"))
        # (2) system of an accepted run, re-pinned to every vector of the group
        if base is None:
            st["no_base"] += 1
            continue
        for vec, accepted, rel, sat_d in facts:
            sat_r = sat_of(base, _pins(base, prog, vec, p), p, st)
            if sat_r is None:
                continue
            st["sat_repin" if sat_r else "unsat_repin"] += 1
            if sat_r != accepted:
                report("circuit-accepts-what-check-rejects" if sat_r else "circuit-rejects-what-check-accepts",
                       "repin", vec, "the system of an accepted run, with the operands re-pinned to this vector, is %s "
                       "but the checked call %s" % ("satisfiable" if sat_r else "unsatisfiable",
                                                    "returns" if accepted else "raises"))
    return {"name": name, "st": st, "viols": viols}


def _init():
    H.bind(REC.BN128)


def run(ctx):
    from .. import xfeat
    xfeat.decl_sweep(ctx, "C03")      # assertions inside cross-feature compositions (pv/xfeat.py)
    # the run-time check and the gadget of an assertion that follows other features, fresh and after a dead first run on the same objects
    xfeat.sweep(ctx, "C03", f_only=lambda pr: any(xfeat.DECL_OPS.get(s[0]) == "C03" for s in pr))
    tasks = []
    if ctx.thorough:
        cfgs = [(2, REC.BN128), (3, REC.BN128), (4, REC.BN128), (3, REC.BLS12_381), (3, REC.CURVE25519), (2, REC.BLS12_381)]
    else:
        cfgs = [(3, REC.BN128), (2, [REC.BLS12_381, REC.CURVE25519][ctx.seed % 2])]
    for n, p in cfgs:
        vals = E.D(n)
        for prog in programs(n):
            if prog["expr"][1] == "array_assert_eq":
                vals_ = [-2, 0, 1, 2, 5]
            elif len(prog["kinds"]) == 3 and prog["kinds"][0] != "M" and n >= 4:
                vals_ = list(range(-5, 6)) + [2 ** n - 1, 2 ** n, 2 ** n + 1, -(2 ** n)]
            else:
                vals_ = vals
            tasks.append((prog, n, p, vals_))
    # realistic widths on a boundary lattice (the exact engine solves bit decompositions by its weighted-sum rule)
    wide = [(17, REC.BN128), (65, REC.BLS12_381)] if not ctx.thorough else [(8, REC.BN128), (16, REC.BN128), (17, REC.BLS12_381), (33, REC.CURVE25519), (64, REC.BN128)]
    for n, p in wide:
        for prog in programs(n):
            if (prog["kinds"][0] == "M" and prog["expr"][1] != "pack_intmod") or prog["expr"][1] == "array_assert_eq":
                continue
            if len(prog["kinds"]) == 3:
                vals_ = [-1, 0, 1, 2 ** (n - 1) - 1, 2 ** (n - 1) + 5, 2 ** n - 1, 2 ** n]
            else:
                vals_ = E.wide_lattice(n, full=False)
            tasks.append((prog, n, p, vals_))
    cfgs = cfgs + wide
    random.Random(ctx.seed).shuffle(tasks)
    tasks.sort(key=lambda t: -len(t[0]["kinds"]))
    results = common.pool_map(_task, tasks, init=_init)
    agg = {}
    for r in results:
        common.merge_counts(agg, r["st"])
        for v in r["viols"].values():
            ctx.violations.append({"sig": v["sig"], "case": v["case"], "what": v["what"] + " (x%d)" % v["count"]})
    from .. import e1
    e1.dedupe_violations(ctx)
    ctx.cov.update(agg)
    ctx.cov["states"] = agg["nodes"]
    ctx.cov["transitions"] = agg["nodes"]
    ctx.cov["executions"] = agg["vectors"]
    ctx.cov["distinct_outcomes"] = agg["sat_direct"] + agg["sat_repin"]
    ctx.cov["programs"] = len(tasks)
    ctx.cov["traces_validated_against_impl"] = agg["sat_direct"] + agg["unsat_direct"] + agg["sat_repin"] + agg["unsat_repin"]
    ctx.cov["configs"] = [{"bitlength": n, "field_bits": p.bit_length()} for n, p in cfgs]
    ctx.cov["exhaustive"] = agg["undecided"] == 0 and agg["capped"] == 0
    ctx.cov["rule"] = ("assertion programs (assert_lt/le/eq/ne/gt/ge x SS/SK/BB/BK, assert_zero/nonzero/positive, "
                       "assert_positive(w) and to_bits(w) for every w in 1..n+1, assert_range x 3 kind combinations, "
                       "LinCombBool(x), _ensurebool, PrivValBool, PubValBool, PackIntMod(m).unpack for m in 2..8, Array.assert_eq on two-element arrays) x every "
                       "operand vector of D(n), and of a boundary lattice for the bitlengths 17, 65 (quick) / 8, 16, 17, 33, 64 (thorough); per vector: accepted / satisfiable (all witness choices, exact engine, "
                       "two ways) / relation; distinct_outcomes counts satisfiable verdicts (both sides of every "
                       "relation occur)")
    ctx.sample({"program": "assert_range(S0, K1, K2)", "inputs": [2, 1, 2], "accepted": False, "satisfiable": False})


def replay(case):
    if isinstance(case, dict) and case.get("xfeat"):
        from .. import xfeat
        return xfeat.decl_replay(case) if case.get("decl") else xfeat.replay(case, "C03")
    H.bind(case["p"])
    prog = {"expr": _t(case["prog"]["expr"]), "kinds": list(case["prog"]["kinds"])}
    vec = tuple(case["vals"])
    n, p = case["n"], case["p"]
    a = e2.build(prog, vec, "plain", n, p)
    d = e2.build(prog, vec, "ign", n, p)
    st = {"nodes": 0, "undecided": 0, "capped": 0}
    out = {"program": O.expr_str(prog["expr"], prog["kinds"]), "inputs": list(vec), "accepted": a.status == "ok",
           "exc": a.exc}
    if d.status == "ok":
        out["sat_direct"] = sat_of(d, _pins(d, prog, vec, p), p, st)
    r = _task((prog, n, p, sorted(set(E.D(n)) | set(vec))))
    out["violations"] = [v for v in r["viols"].values() if v["case"]["vals"] == list(vec) or True]
    return out


def _t(e):
    return tuple(_t(x) for x in e) if isinstance(e, list) else e
