"""C11: zkinterface files encode the traced circuit; the verifier file has no witness.

E5 on pysnark.zkinterface.backend / backendbellman / backendbulletproofs (one worker pool per field:
the field is fixed at import), through a wire-faithful FlatBuffers builder shim (or the real library
when present), decoded by an independent hand decoder (pv/decoders/zkif.py)."""
import importlib
import os
import random
import shutil
import sys
import tempfile

from .. import common
from .. import e5
from ..decoders import zkif

SHIM = os.path.join(common.VERIF, "pv", "shims", "fb")
MODS = {"zkinterface": "pysnark.zkinterface.backend", "zkifbellman": "pysnark.zkinterface.backendbellman",
        "zkifbulletproofs": "pysnark.zkinterface.backendbulletproofs"}
_B = None
_BASE = None


def ensure_flatbuffers():
    try:
        import flatbuffers  # noqa: F401
        return "real" if "shims" not in flatbuffers.__file__ else "shim"
    except ImportError:
        sys.path.insert(0, SHIM)
        import flatbuffers  # noqa: F401
        return "shim"


def _init(name):
    global _B, _BASE
    if common.TREE not in sys.path:
        sys.path.insert(0, common.TREE)
    ensure_flatbuffers()
    _B = importlib.import_module(MODS[name])
    _BASE = importlib.import_module("pysnark.zkinterface.backend")
    if not os.path.realpath(_BASE.__file__).startswith(os.path.realpath(common.TREE)):
        raise RuntimeError("backend imported from " + _BASE.__file__)
    tmp = tempfile.mkdtemp(prefix="pv-c11-")
    os.chdir(tmp)
    from multiprocessing import util
    util.Finalize(None, shutil.rmtree, args=(tmp, True), exitpriority=1)
    sys.stderr = open(os.devnull, "w")
    sys.stdout = open(os.devnull, "w")


def _reset():
    del _BASE.pubvals[:]
    del _BASE.privvals[:]
    del _BASE.constraints[:]


def check_files(pub, priv, cons, p):
    out = []
    npub, npriv = len(pub), len(priv)
    BL = (p.bit_length() + 7) // 8
    files = {}
    for fn in ("computation.zkif", "circuit.zkif"):
        try:
            data = open(fn, "rb").read()
            files[fn] = data
            msgs, defects = zkif.messages(data)
        except (zkif.Malformed, Exception) as ex:  # noqa: BLE001
            out.append(("malformed", "%s: %s: %s" % (fn, type(ex).__name__, ex)))
            continue
        for d in defects:
            out.append(("not-well-formed", "%s: %s" % (fn, d)))
        types = [m["type"] for m in msgs]
        want = ["header", "witness", "constraints"] if fn == "computation.zkif" else ["header", "constraints"]
        if fn == "circuit.zkif" and "witness" in types:
            out.append(("witness-in-circuit-file", "circuit.zkif contains a Witness message"))
        if sorted(types) != sorted(want):
            out.append(("message-set", "%s contains messages %s, expected %s" % (fn, types, want)))
            continue
        for m in msgs:
            if m["type"] == "header":
                ids = [i for i, _ in m["instance"]]
                if ids != list(range(1, npub + 1)):
                    out.append(("header-instance-ids", "%s: instance ids %s, expected 1..%d" % (fn, ids[:6], npub)))
                vals = [v for _, v in m["instance"]]
                if npub and m["width"] != BL:
                    out.append(("value-width", "%s: instance values are %s bytes wide, expected %d" % (fn, m["width"], BL)))
                if any(v is None or v >= p for v in vals):
                    out.append(("value-not-canonical", "%s: an instance value is >= p" % fn))
                elif vals != [v % p for v in pub]:
                    out.append(("header-instance-values", "%s: instance values differ from the traced public values mod p" % fn))
                if m["free_variable_id"] != npub + npriv + 1:
                    out.append(("free-variable-id", "%s: free_variable_id %d, expected %d" % (fn, m["free_variable_id"], npub + npriv + 1)))
                if m["field_maximum"] != p - 1:
                    out.append(("field-maximum", "%s: field_maximum is not p-1" % fn))
            elif m["type"] == "witness":
                ids = [i for i, _ in m["assigned"]]
                if ids != list(range(npub + 1, npub + npriv + 1)):
                    out.append(("witness-ids", "%s: witness assigns ids %s, expected %d..%d" % (fn, ids[:6], npub + 1, npub + npriv)))
                vals = [v for _, v in m["assigned"]]
                if any(v is None or v >= p for v in vals):
                    out.append(("value-not-canonical", "%s: a witness value is >= p" % fn))
                elif vals != [v % p for v in priv]:
                    out.append(("witness-values", "%s: witness values differ from the traced private values mod p" % fn))
                if npriv and m["width"] != BL:
                    out.append(("value-width", "%s: witness values are %s bytes wide, expected %d" % (fn, m["width"], BL)))
            elif m["type"] == "constraints":
                def wid(name):
                    if name == "one":
                        return 0
                    return name[1] if name[0] == "pub" else npub + name[1]
                dec = m["constraints"]
                if len(dec) != len(cons):
                    out.append(("constraint-count", "%s: %d constraints, traced %d" % (fn, len(dec), len(cons))))
                    continue
                asg = {0: 1}
                for i, v in enumerate(pub, 1):
                    asg[i] = v % p
                for i, v in enumerate(priv, 1):
                    asg[npub + i] = v % p
                sat_exp = e5.satisfied(pub, priv, cons, p)
                for ci, (tri, exp) in enumerate(zip(dec, cons)):
                    evs = []
                    bad = False
                    for side, ((lc, w), e) in enumerate(zip(tri, exp)):
                        if any(v is None or v >= p for _, v in lc):
                            out.append(("coefficient-not-canonical", "%s: constraint %d has a coefficient >= p" % (fn, ci)))
                        if lc and w != BL:
                            out.append(("value-width", "%s: coefficients %s bytes wide, expected %d" % (fn, w, BL)))
                        got = {}
                        for i, v in lc:
                            got[i] = (got.get(i, 0) + (v or 0)) % p
                        got = {i: v for i, v in got.items() if v}
                        want_lc = {wid(k): c for k, c in e.items()}
                        if got != want_lc:
                            out.append(("constraint-differs", "%s: constraint %d side %s decodes to %s, traced %s" % (fn, ci, "ABC"[side], got, want_lc)))
                            bad = True
                        evs.append(sum(v * asg.get(i, 0) for i, v in got.items()) % p)
                    if not bad and sat_exp and (evs[0] * evs[1] - evs[2]) % p:
                        out.append(("decoded-assignment-violates-decoded-constraint", "%s: constraint %d" % (fn, ci)))
    return out, files.get("circuit.zkif")


def _task(t):
    chunk, p = t
    st = {"traces": 0, "transitions": 0, "files_decoded": 0, "circuit_pairs_compared": 0}
    viols = {}
    circ = {}
    shapes = set()
    for spec in chunk:
        _reset()
        e5.build(_B, spec, p)
        _B.prove()
        st["traces"] += 1
        st["transitions"] += len(spec["vars"]) + len(spec["cons"]) + 1
        st["files_decoded"] += 2
        pub, priv, cons = e5.expected(spec, p)
        shapes.add((len(pub), len(priv), len(cons)))
        res, circuit_bytes = check_files(pub, priv, cons, p)
        # circuit.zkif must be byte-identical for traces that differ only in private VALUES
        key = (tuple((k, v if k == "pub" else None) for k, v in spec["vars"]), tuple(spec["cons"]))
        if circuit_bytes is not None:
            if key in circ:
                st["circuit_pairs_compared"] += 1
                if circ[key][0] != circuit_bytes:
                    res.append(("circuit-file-depends-on-private-values",
                                "circuit.zkif differs between this trace and %s" % e5.spec_str(circ[key][1], p)))
            else:
                circ[key] = (circuit_bytes, spec)
        for klass, text in res:
            sig = {"klass": klass}
            k = common.sig_hash(sig)
            if k not in viols:
                viols[k] = {"sig": sig, "count": 0, "what": "trace %s: %s" % (e5.spec_str(spec, p), text), "case": {"spec": e5.compact(spec)}}
            viols[k]["count"] += 1
    return {"st": st, "viols": viols, "shapes": shapes}


def run(ctx):
    from .. import recorder as REC
    fields = {"zkinterface": REC.BN128, "zkifbellman": REC.BLS12_381, "zkifbulletproofs": REC.CURVE25519}
    agg, shapes = {}, set()
    fb = None
    for name, p in fields.items():
        traces = e5.traces(1 if ctx.thorough and name == "zkinterface" else 0, p)
        if not ctx.thorough and name != "zkinterface":
            traces = traces[:: 3]
        # keep traces that differ only in private values in the same chunk: sort by structure
        traces.sort(key=lambda s: (repr([(k, v if k == "pub" else 0) for k, v in s["vars"]]), repr(s["cons"])))
        # large traces (more than 4096 private variables / constraints, more than 8192 variables; thorough > 65535)
        traces = [e5.big_trace(nv, 7, p) for nv in (255, 256, 1023, 1024, 4095, 4096)] + [e5.big_trace(9001, 4500, p)] + ([e5.big_trace(70001, 66000, p)] if ctx.thorough and name == "zkinterface" else []) + traces
        nchunks = common.NCPU * 2
        size = (len(traces) + nchunks - 1) // nchunks
        chunks = [traces[i:i + size] for i in range(0, len(traces), size)]
        results = common.pool_map(_task, [(c, p) for c in chunks if c], init=_init, initargs=(name,))
        for r in results:
            common.merge_counts(agg, r["st"])
            shapes |= {(name,) + s for s in r["shapes"]}
            for v in r["viols"].values():
                v["sig"]["backend"] = name
                ctx.violations.append({"sig": v["sig"], "case": dict(v["case"], backend=name),
                                       "what": "[%s] %s (x%d)" % (name, v["what"], v["count"])})
    from .. import e1
    e1.dedupe_violations(ctx)
    ctx.cov.update(agg)
    ctx.cov["executions"] = agg["traces"]
    ctx.cov["states"] = len(shapes)
    ctx.cov["distinct_outcomes"] = len(shapes)
    ctx.cov["traces_validated_against_impl"] = agg["files_decoded"] // 2
    ctx.cov["flatbuffers"] = "shim (pv/shims/fb) - the flatbuffers package is not installed in this image"
    ctx.cov["exhaustive"] = True
    ctx.cov["rule"] = ("same trace alphabet as C10 (0..3 variables x value classes, 0..2 constraints x LC menu) on each of the "
                       "three zkinterface backends/fields; both files decoded message by message; circuit.zkif compared "
                       "byte-wise across traces that differ only in private values; states = (backend, npub, npriv, ncons) shapes")
    ctx.assumptions.append("decided modulo the FlatBuffers library: a wire-faithful shim of flatbuffers.Builder is used because "
                           "the package is absent; the decoder is written independently from the .fbs schema")
    ctx.sample({"backend": "zkifbellman", "trace": "vars=[pub(-1), priv(2^256+5)] cons=[v1 * v2 = one]"})


def replay(case):
    from .. import recorder as REC
    name = case.get("backend", "zkinterface")
    p = {"zkinterface": REC.BN128, "zkifbellman": REC.BLS12_381, "zkifbulletproofs": REC.CURVE25519}[name]
    _init(name)
    spec = e5.expand(case["spec"], p)
    _reset()
    e5.build(_B, spec, p)
    _B.prove()
    pub, priv, cons = e5.expected(spec, p)
    res, _ = check_files(pub, priv, cons, p)
    sys.stdout = sys.__stdout__
    return {"trace": e5.spec_str(spec, p), "violations": [{"klass": k, "what": t} for k, t in res]}
