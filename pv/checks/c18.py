"""C18: proof artefacts are emitted at exit only for successful runs, and completely.

E6: one fresh interpreter per point of the product  statement position x way of terminating x
earlier caught event x autoprove x backend; the child's exit status, the number of prove() calls
and the artefacts found (decoded) are compared with a reference function."""
import itertools
import json
import os
import shutil
import subprocess
import tempfile

from .. import common
from ..decoders import iden3, zkif
from . import c11, c12

MODES = ["fall", "exit()", "exit(None)", "exit(0)", "exit(False)", "exit(1)", "exit(2)", "exit(str)", "exit('')", "exit([])", "ValueError", "KeyboardInterrupt",
         "raise SystemExit(0)", "raise SystemExit(1)", "builtin exit(0)", "builtin exit(1)"]
CAUGHT = ["none", "sysexit1", "sysexit0", "exception"]
BACKENDS = ["snarkjs", "zkinterface", "zkifbellman", "qaptools", "nobackend"]
ARTEFACTS = {"snarkjs": ["circuit.r1cs", "witness.wtns"], "zkinterface": ["computation.zkif", "circuit.zkif"],
             "zkifbellman": ["computation.zkif", "circuit.zkif"], "qaptools": ["pysnark_schedule", "pysnark_eqs_main"],
             "nobackend": []}
SCRIPT = os.path.join(common.VERIF, "pv", "children", "exit_script.py")


def expected_status(mode):
    return {"fall": 0, "exit()": 0, "exit(None)": 0, "exit(0)": 0, "exit(False)": 0, "exit(1)": 1, "exit(2)": 2, "exit(str)": 1, "exit('')": 1, "exit([])": 1,
            "ValueError": 1, "KeyboardInterrupt": "sigint", "raise SystemExit(0)": 0, "raise SystemExit(1)": 1,
            "builtin exit(0)": 0, "builtin exit(1)": 1}[mode]


def child_env(backend):
    env = dict(os.environ, PYTHONHASHSEED="0", PYSNARK_BACKEND=backend)
    pp = [common.TREE]
    if backend.startswith("zkif") or backend == "zkinterface":
        try:
            import flatbuffers  # noqa: F401
        except ImportError:
            pp.append(c11.SHIM)
    if backend == "qaptools":
        env["QAPTOOLS_BIN"] = c12.STUBS
    env["PYTHONPATH"] = os.pathsep.join(pp + [env.get("PYTHONPATH", "")]).rstrip(os.pathsep)
    for k in ("PYSNARK_KEYDIR", "PYSNARK_PROOFDIR"):
        env.pop(k, None)
    return env


def decode_trace_size(backend, d):
    """Number of public values / constraints found in the artefacts (complete trace of k statements
    has k of each)."""
    try:
        if backend == "snarkjs":
            r = iden3.read_r1cs(open(os.path.join(d, "circuit.r1cs"), "rb").read())
            w = iden3.read_wtns(open(os.path.join(d, "witness.wtns"), "rb").read())
            if r["defects"] or w["defects"]:
                return ("defects", r["defects"] + w["defects"])
            return (r["npubout"] + r["npubin"], r["ncons"], [v for v in w["values"][1:1 + r["npubout"]]])
        if backend in ("zkinterface", "zkifbellman"):
            msgs, defects = zkif.messages(open(os.path.join(d, "computation.zkif"), "rb").read())
            if defects:
                return ("defects", defects)
            h = [m for m in msgs if m["type"] == "header"][0]
            c = [m for m in msgs if m["type"] == "constraints"][0]
            return (len(h["instance"]), len(c["constraints"]), [v for _, v in h["instance"]])
        if backend == "qaptools":
            lines = [ln for ln in open(os.path.join(d, "pysnark_eqs_main")).read().splitlines() if ln.strip()]
            prods = [ln for ln in lines if ln.rstrip().endswith(".")]
            links = [ln for ln in lines if "o_" in ln]
            vals = [int(ln.split(":")[1]) for ln in open(os.path.join(d, "pysnark_values")) if ":" in ln and not ln.startswith("#")]
            return (len(links), len(prods), vals)
    except Exception as ex:  # noqa: BLE001
        return ("undecodable", "%s: %s" % (type(ex).__name__, ex))
    return None


def run_point(pt):
    backend, k, mode, caught, auto = pt[:5]
    d = tempfile.mkdtemp(prefix="pv-c18-")
    try:
        flags = pt[9] if len(pt) > 9 and pt[9] else ""
        stale = b"\xab" * 300000
        if "stale" in flags:
            # artefact files of an earlier, LARGER run are already in the working directory
            for f in ARTEFACTS[backend] + (["pysnark_eqs", "pysnark_wires", "pysnark_values"] if backend == "qaptools" else []):
                with open(os.path.join(d, f), "wb") as fh:
                    fh.write(stale)
        cfg = {"backend": backend, "k": k, "mode": mode, "caught": caught, "autoprove": auto, "prehook": len(pt) > 5 and pt[5], "operation": pt[6] if len(pt) > 6 else None, "nstmts": pt[7] if len(pt) > 7 else None, "shape": pt[8] if len(pt) > 8 else 0,
               "midfinal": pt[10][0] if len(pt) > 10 and pt[10] else None, "midfinal_then": pt[10][1] if len(pt) > 10 and pt[10] else None}
        r = subprocess.run([common.PY] + (["-O"] if "O" in flags.split("+") else []) + [SCRIPT, json.dumps(cfg)], cwd=d, env=child_env(backend), capture_output=True,
                           text=True, start_new_session=True, timeout=120)
        status = r.returncode
        calls = len(open(os.path.join(d, "prove_calls")).read()) if os.path.exists(os.path.join(d, "prove_calls")) else 0
        bn = open(os.path.join(d, "backend_name")).read() if os.path.exists(os.path.join(d, "backend_name")) else None
        present = [f for f in ARTEFACTS[backend] if os.path.exists(os.path.join(d, f)) and
                   not ("stale" in flags and open(os.path.join(d, f), "rb").read() == stale)]
        size = decode_trace_size(backend, d) if present and len(present) == len(ARTEFACTS[backend]) else None
        hook_tb = "Traceback" in r.stderr and ("atexit" in r.stderr or "final" in r.stderr or "process_snark" in r.stderr)
        return {"pt": pt, "status": status, "calls": calls, "present": present, "size": size, "backend_name": bn,
                "hook_traceback": hook_tb, "stderr_tail": r.stderr[-300:]}
    except subprocess.TimeoutExpired:
        return {"pt": pt, "timeout": True}
    finally:
        shutil.rmtree(d, True)


def judge(res):
    """Reference function.  Returns list of (sig, text)."""
    backend, k, mode, caught, auto = res["pt"][:5]
    out = []
    if res.get("timeout"):
        return [({"klass": "child-timeout"}, "child did not finish")]
    if res["backend_name"] != backend:
        return [({"klass": "harness-backend-not-selected", "backend": backend}, "child ran with backend %r: %s" % (res["backend_name"], res["stderr_tail"]))]
    es = expected_status(mode)
    ok_status = (res["status"] in (-2, 130, 1)) if es == "sigint" else (res["status"] == es)
    if not ok_status:
        out.append(({"klass": "unexpected-exit-status", "mode": mode}, "exit status %s, expected %s" % (res["status"], es)))
        return out
    success = (es == 0)
    nstmts = min(k, res["pt"][7] if len(res["pt"]) > 7 and res["pt"][7] else 3)
    base = {"mode": mode, "caught": caught, "autoprove": auto}
    if len(res["pt"]) > 5 and res["pt"][5]:
        base["prehook"] = True
    if len(res["pt"]) > 6 and res["pt"][6]:
        base["operation"] = res["pt"][6]
    if len(res["pt"]) > 9 and res["pt"][9]:
        base["env"] = res["pt"][9]
    mid = res["pt"][10] if len(res["pt"]) > 10 and res["pt"][10] else None
    if mid:
        base["midfinal"] = "%d/%s" % tuple(mid)
    if mid and auto and success:
        # an explicit final() in the middle: the step at exit still runs, over the COMPLETE trace
        want_pub = (mid[0] + 1) if mid[1] == "pub-only" else nstmts
        want_cons = mid[0] if mid[1] == "pub-only" else nstmts
        if res["calls"] != 2:
            out.append((dict(base, klass="successful-run-not-proved-at-exit"), "explicit final() after statement %d, then more tracing: prove() ran %d times (expected: the explicit one and the one at exit)" % (mid[0], res["calls"])))
        elif res["size"] is None or res["size"][0] in ("defects", "undecodable"):
            out.append((dict(base, klass="artefacts-undecodable"), "artefacts: %s" % (res["size"],)))
        elif res["size"][0] != want_pub or res["size"][1] != want_cons:
            out.append((dict(base, klass="artefacts-incomplete-trace"), "artefacts hold %d public values and %d constraints; the complete trace has %d and %d"
                        % (res["size"][0], res["size"][1], want_pub, want_cons)))
    elif auto and success:
        if res["calls"] != 1:
            out.append((dict(base, klass="successful-run-not-proved" if res["calls"] == 0 else "proved-more-than-once"),
                        "exit status 0 with autoprove on, but prove() ran %d times" % res["calls"]))
        elif ARTEFACTS[backend]:
            if len(res["present"]) != len(ARTEFACTS[backend]):
                out.append((dict(base, klass="artefacts-missing"), "prove() ran but only %s exist" % res["present"]))
            elif res["size"] is None or res["size"][0] in ("defects", "undecodable"):
                out.append((dict(base, klass="artefacts-undecodable"), "artefacts: %s" % (res["size"],)))
            else:
                npub, ncons, vals = res["size"]
                if npub != nstmts or ncons != nstmts or list(vals)[:nstmts] != [10 + i for i in range(nstmts)]:
                    out.append((dict(base, klass="artefacts-incomplete-trace"),
                                "artefacts hold %d public values %s and %d constraints; the run traced %d statements" % (npub, vals, ncons, nstmts)))
    else:
        if res["calls"] != 0 or res["present"]:
            why = "autoprove off" if not auto else "exit status %s" % res["status"]
            out.append((dict(base, klass="artefacts-for-failed-run" if auto else "artefacts-with-autoprove-off"),
                        "%s, yet prove() ran %d times and %s exist" % (why, res["calls"], res["present"])))
    if res["hook_traceback"]:
        out.append((dict(base, klass="exit-hook-fails"), "the exit hook itself raised: %s" % res["stderr_tail"][-160:].replace("\n", " | ")))
    return out


def points(thorough, seed):
    pts = []
    for backend in BACKENDS:
        for k, mode, caught, auto in itertools.product(range(4), MODES, CAUGHT, (True, False)):
            if not thorough and backend in ("zkifbellman", "nobackend") and caught != "none":
                continue        # quick: these two backends share all code with zkinterface / have no artefacts
            pts.append((backend, k, mode, caught, auto))
    # long scripts: 600 statements (artefacts beyond 64 KiB); stopped at the end, in the middle, by an error in the middle
    for backend in ("snarkjs", "zkinterface", "qaptools"):
        for k, mode in ((600, "fall"), (600, "exit(0)"), (450, "exit()"), (450, "ValueError"), (599, "exit(1)")):
            pts.append((backend, k, mode, "none", True, False, None, 600))
        for shape in (1, 2, 3, 4):
            pts.append((backend, 600, "fall", "none", True, False, None, 600, shape))
    # the program calls runtime.final() itself after statement j and goes on (more statements / only a public value)
    # (not qaptools: a second prove() re-appends the equations to the per-function file - duplicates of true equations,
    #  which the size-based completeness test of this check would misread)
    for backend in ("snarkjs", "zkinterface", "zkifbellman"):
        for j, then in ((1, "more"), (2, "more"), (1, "pub-only"), (0, "pub-only"), (2, "pub-only")):
            pts.append((backend, 3, "fall", "none", True, False, None, None, 0, "", (j, then)))
            pts.append((backend, 3, "exit(0)", "none", True, False, None, None, 0, "", (j, then)))
    # interpreter run with -O (assert statements compiled out) / artefact files of a larger earlier run already present
    for backend in ("snarkjs", "zkinterface", "qaptools"):
        for flags in ("O", "stale", "O+stale"):
            for k, mode in ((3, "fall"), (2, "exit(0)"), (1, "exit(1)"), (2, "ValueError")):
                pts.append((backend, k, mode, "none", True, False, None, None, 0, flags))
    # automatic proving off and a separate step requested (runtime.operation set)
    for backend in BACKENDS if thorough else ("snarkjs", "zkinterface", "nobackend"):
        for k, mode, opn in itertools.product((0, 3), ("fall", "exit(0)", "exit(1)", "ValueError"), ("prove", "keygen", "verify")):
            pts.append((backend, k, mode, "none", False, False, opn))
    # a helper thread of the program that dies of its own uncaught exception (or ends normally) before the main thread ends
    for backend in ("snarkjs", "zkinterface", "qaptools") if thorough else ("snarkjs", "zkinterface"):
        for k, mode, caught in itertools.product((0, 2, 3) if thorough else (0, 3), MODES, ("thread-dies", "thread-ok")):
            pts.append((backend, k, mode, caught, True))
        for k, mode in itertools.product((0, 3), ("fall", "exit(1)", "ValueError")):
            pts.append((backend, k, mode, "thread-dies", False))
    # an exception hook already installed by the environment when pysnark is imported
    for backend in ("snarkjs", "qaptools") if thorough else ("snarkjs",):
        for k, mode, caught in itertools.product((0, 2, 3), MODES, CAUGHT if thorough else ("none", "exception")):
            pts.append((backend, k, mode, caught, True, True))
    return pts


def run(ctx):
    pts = points(ctx.thorough, ctx.seed)
    results = common.pool_map(run_point, pts, procs=common.NCPU)
    shapes = set()
    nprove = 0
    for res in results:
        ctx.add("executions")
        ctx.add("transitions", 1 + min(res["pt"][1], (res["pt"][7] if len(res["pt"]) > 7 and res["pt"][7] else 3)))
        if not res.get("timeout"):
            shapes.add((res["pt"][0], res["status"], res["calls"], len(res["present"])))
            nprove += res["calls"]
        for sig, text in judge(res):
            ctx.violation(sig, {"pt": list(res["pt"])}, "backend=%s stop-before-statement=%d mode=%s caught=%s autoprove=%s%s: %s" % (tuple(res["pt"][:5]) + ((" (exception hook pre-installed)" if len(res["pt"]) > 5 and res["pt"][5] else "") + ((" (%s)" % res["pt"][9]) if len(res["pt"]) > 9 and res["pt"][9] else "") + ((" (runtime.operation=%s)" % res["pt"][6]) if len(res["pt"]) > 6 and res["pt"][6] else ""), text)))
    from .. import e1
    e1.dedupe_violations(ctx)
    ctx.cov["states"] = len(shapes)
    ctx.cov["distinct_outcomes"] = len(shapes)
    ctx.cov["prove_calls_observed"] = nprove
    ctx.cov["traces_validated_against_impl"] = len(results)
    ctx.cov["exhaustive"] = True
    ctx.cov["rule"] = ("fresh interpreter per point: 4 statement positions x 16 ways of terminating x 4 earlier caught events x "
                       "autoprove on/off x backends snarkjs, zkinterface, zkifbellman, qaptools (failing tool stubs), nobackend "
                       "(quick: full product for snarkjs, all termination modes at one position for the others); states = "
                       "distinct (backend, exit status, prove calls, artefacts present)")
    ctx.sample({"backend": "snarkjs", "position": 2, "mode": "exit(1)", "caught": "none", "autoprove": True,
                "expected": "status 1, prove() not called, no circuit.r1cs / witness.wtns"})


def replay(case):
    res = run_point(tuple(case["pt"]))
    return {"point": case["pt"], "observed": {k: v for k, v in res.items() if k != "pt"},
            "violations": [{"sig": s, "what": t} for s, t in judge(res)]}
