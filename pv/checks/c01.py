"""C01 completeness: the recorded witness satisfies every emitted constraint (checking on)."""
from .. import e1
from .. import opseq as E
from . import _e1common as X

MODES = ("plain", "g1", "g0")


def oracle(prog, vec, mode, n, p, o, extra):
    if mode == "ign" or not o.unsat:
        return
    seen = set()
    for op, ak, idx in o.unsat:
        if (op, ak) in seen:
            continue
        seen.add((op, ak))
        klass = "unsat" if o.status == "ok" else "unsat-left-by-aborted-call"
        yield ({"op": op, "kinds": ak, "mode": mode, "klass": klass},
               "%s on %s (bitlength %d, %s): constraint #%d emitted by %s is not satisfied by the recorded witness"
               % (E.O.expr_str(prog["expr"], prog["kinds"]), list(vec), n, mode, idx, op))


def run(ctx):
    from .. import xfeat
    xfeat.sweep(ctx, "C01")      # cross-feature compositions (pv/xfeat.py)
    cfg = e1.standard_configs(ctx)
    e1.sweep(ctx, E.depth1_programs(include_fxp=True), cfg, "pv.checks.c01.oracle", modes=MODES)
    # depth 2 on the complete interval D(2) (D(3) in the thorough tier)
    from ..recorder import BN128, BLS12_381, REAL_FIELDS
    e1.sweep(ctx, E.huge_programs(), [(16, pp, E.huge_lattice(pp)) for pp in REAL_FIELDS.values()], "pv.checks.c01.oracle", modes=MODES)
    d2 = X.depth2_family(ctx)
    cfg2 = [(2, BN128, E.D(2))] + ([(3, BLS12_381, E.D(2))] if ctx.thorough else [])
    e1.sweep(ctx, d2, cfg2, "pv.checks.c01.oracle", modes=MODES if ctx.thorough else ("plain", "g0"))
    X.real_backend_sweeps(ctx, "pv.checks.c01.oracle", MODES)
    e1.wide_sweep(ctx, "pv.checks.c01.oracle", MODES, include_assert=True)
    X.structured_sweep(ctx, "pv.checks.c01.oracle", MODES, fxp=True)
    X.long_run(ctx, "unsat")
    e1.bfs_sweep(ctx, {"unsat", "unsat-left-by-aborted-call"}, ctx.thorough)
    e1.dedupe_violations(ctx)
    ctx.cov["traces_validated_against_impl"] = ctx.cov["executions"]
    ctx.cov["exhaustive"] = True
    ctx.cov["rule"] = ("every depth-1 program (operator x operand kinds) on every input vector of the "
                       "complete interval D(n)=[-(2^n+1),2^n+1] (n=2,3) and the boundary lattice (n>=4), "
                       "in modes plain / true guard / false guard; depth-2 compositions on D(2); "
                       "oracle after every API call: all constraints emitted by that call hold mod p; "
                       "plus breadth-first search over operation SEQUENCES to depth 3 (4 thorough) with state merging, mode "
                       "switches, guarded regions and aborted calls (pv/bfs.py)")
    ctx.assumptions += ["recorder backend represents what a proof backend receives (validated against "
                        "pysnark.snarkjsbackend in C06/C10)", "fields: bn128 + one of bls12-381/curve25519 "
                        "(quick), all three (thorough)"]
    ctx.sample({"program": "floordiv(S0, K1)", "inputs": [7, 2], "mode": "g0", "bitlength": 3})


def replay(case):
    if isinstance(case, dict) and case.get("xfeat"):
        from .. import xfeat
        return xfeat.replay(case, "C01")
    return X.replay_case(case, oracle)
