"""C02 soundness: the emitted constraints determine every result uniquely from its operands.

Decided by enumerating, for every gadget instance (operands pinned), ALL satisfying assignments
of the variables the operation introduced — exactly in the real field (pv.witness.exact) — and,
for validation of that engine, by plain brute force in small prime fields on the same systems."""
import random

from .. import common
from .. import e2
from .. import harness as H
from .. import opseq as E
from .. import ops as O
from .. import recorder as REC
from .. import witness as W

HEAVY = ("pow(S0, S1)", "pow(K0, S1)", "lshift(S0, S1)", "lshift(K0, S1)", "rshift(S0, S1)",
         "rshift(K0, S1)")


def value_programs():
    return [p for p in E.depth1_programs(include_assert=False, include_fxp=True) if p["expr"][1] not in ("assert_lt", "assert_eq", "assert_ge")]


def depth2_programs():
    I = lambda i: ("in", i)
    return [
        {"expr": ("op", "if_then_else", ("op", "lt", I(0), I(1)), I(2), I(3)), "kinds": ["S", "S", "S", "K"]},
        {"expr": ("op", "if_then_else", ("op", "eq", I(0), I(1)), I(2), I(3)), "kinds": ["S", "K", "S", "S"]},
        {"expr": ("op", "lt", ("op", "floordiv", I(0), I(1)), I(2)), "kinds": ["S", "S", "S"]},
        {"expr": ("op", "and", ("op", "mul", I(0), I(1)), I(2)), "kinds": ["S", "S", "S"]},
        {"expr": ("op", "eq", ("op", "mod", I(0), I(1)), I(2)), "kinds": ["S", "K", "S"]},
        {"expr": ("op", "abs", ("op", "sub", I(0), I(1))), "kinds": ["S", "S"]},
        {"expr": ("op", "ge", ("op", "xor", I(0), I(1)), I(2)), "kinds": ["S", "S", "K"]},
    ]


def attribute(f, inst):
    """Discriminating predicate over a counterexample (used by the known-findings matcher)."""
    fn, func, line = f["root"]
    if f["klass"] == "result-not-unique" and func == "__divmod__" and line.startswith("quo = PrivVal("):
        q = f["root_centered"]
        return "quotient-witness-out-of-range" if abs(q) > 2 ** (inst.n + 2) else "quotient-witness-small"
    return "-"


def analyse(prog, vec, mode, n, p, st, viols):
    inst = e2.build(prog, vec, mode, n, p)
    if inst.status != "ok" or not inst.wires:
        st["skipped_raise"] += 1
        return
    st["instances"] += 1
    try:
        if mode == "reuse":
            rel = {v for w in inst.wires for v in w if v != 0}
            sols, undec, s = W.exact(inst.cons, inst.nvars, inst.fixed, p, relevant=rel, honest=inst.assignment)
        else:
            sols, undec, s = W.exact(inst.cons, inst.nvars, inst.fixed, p)
    except W.Capped:
        st["capped"] += 1
        return
    st["nodes"] += s["nodes"]
    st["solutions"] += len(sols)
    if undec:
        st["undecided"] += 1
        return
    if not e2.honest_is_solution(inst, sols):
        viols.append(({"klass": "honest-witness-not-a-solution", "op": O.expr_str(prog["expr"], prog["kinds"])},
                      "honest witness missing from the solution set", prog, vec, mode, n, p))
        return
    for f in e2.classify(inst, sols):
        if f["klass"] == "undecided-dependent":
            st["undecided"] += 1
            continue
        alt = f["alt"]
        full = dict(inst.assignment)
        full.update(alt)
        if not W.verify(W.reduce_system(inst.cons, p), full, p):
            st["harness_error"] += 1
            continue
        sig = {"klass": f["klass"], "root_fn": f["root"][1], "root_line": f["root"][2],
               "attrib": attribute(f, inst)}
        if mode != "plain":
            sig["history"] = mode
        what = ("%s on %s (bitlength %d, field %d bits): the constraints admit a witness in which the "
                "operands keep their values but result wire #%d %s; first deviating witness variable v%s "
                "created at %s:%s `%s`"
                % (O.expr_str(prog["expr"], prog["kinds"]), list(vec), n, p.bit_length(), f["wire_index"],
                   ("is unconstrained (free variable)" if f["klass"] == "free-output" else
                    "= %s instead of %s" % (e2.centered(f.get("got", 0), p), e2.centered(f.get("honest", 0), p))),
                   f["var"], f["root"][0], f["root"][1], f["root"][2]))
        viols.append((sig, what, prog, vec, mode, n, p))
    st["distinct_solution_counts"].add(len(sols))


def _task(t):
    kind, prog, n, p, vals = t
    st = {"instances": 0, "skipped_raise": 0, "undecided": 0, "capped": 0, "nodes": 0, "solutions": 0,
          "harness_error": 0, "xval_instances": 0, "xval_agree": 0, "xval_disagree": 0, "xval_capped": 0,
          "brute_nodes": 0, "brute_solutions": 0, "smallfield_artefacts": 0,
          "distinct_solution_counts": set()}
    viols = []
    dis = []
    name = O.expr_str(prog["expr"], prog["kinds"])
    wide_div = n > 6 and prog["expr"][0] == "op" and prog["expr"][1] in ("floordiv", "mod", "divmod", "truediv", "pow", "lshift", "rshift")
    vectors = E.input_vectors(prog, vals)
    if n > 6 and prog["expr"][0] == "op" and prog["expr"][1] in ("lshift", "rshift") and prog["kinds"][1:] == ["K"]:
        # public shift counts: EVERY count 0..n+1 (byte-aligned counts, n-1, n, n+1 ...), first operand from the lattice
        vectors = [(a, c) for a in vals for c in range(0, n + 2)]
    for vec in vectors:
        if wide_div and len(vec) > 1 and abs(vec[1]) > (n + 1 if prog["expr"][1] in ("lshift", "rshift") else 8):
            # every remainder below the divisor is a witness (known finding KF-C02-quotient): the solution
            # set grows with the divisor, and exponents / shift counts grow the values; wide bitlengths keep
            # these second operands small and put the width on the first one
            st["wide_skipped_large_second_operand"] = st.get("wide_skipped_large_second_operand", 0) + 1
            continue
        if kind == "real":
            analyse(prog, vec, "plain", n, p, st, viols)
        elif kind == "reuse":
            analyse(prog, vec, "reuse", n, p, st, viols)
        else:
            inst = e2.build(prog, vec, "plain", n, p)
            if inst.status != "ok" or not inst.wires:
                continue
            st["xval_instances"] += 1
            try:
                r = e2.cross_validate(inst)
            except W.Capped:
                st["xval_capped"] += 1
                continue
            st["brute_nodes"] += r["nodes"]
            st["brute_solutions"] += r["brute"]
            if r["agree"] is None:
                st["xval_capped"] += 1
            elif r["agree"]:
                st["xval_agree"] += 1
                # small-field-only counterexamples are artefacts of wrap-around: counted, not reported
                for b in r["brute_sols"]:
                    asg = {i + 1: x for i, x in enumerate(b)}
                    if any(W.eval_lc(w, asg, p) != h for w, h in zip(inst.wires, inst.honest)):
                        st["smallfield_artefacts"] += 1
                        break
            else:
                st["xval_disagree"] += 1
                dis.append("%s %s p=%d brute=%d exact=%d" % (name, list(vec), p, r["brute"], r.get("exact", -1)))
    # de-duplicate violations per task
    out = {}
    for sig, what, prog_, vec, mode, n_, p_ in viols:
        k = common.sig_hash(sig)
        if k not in out:
            out[k] = {"sig": sig, "what": what, "count": 0,
                      "case": {"prog": prog_, "vals": list(vec), "mode": mode, "n": n_, "p": p_}}
        out[k]["count"] += 1
    return {"name": name, "kind": kind, "st": st, "viols": out, "dis": dis}


def _init():
    H.bind(REC.BN128)


def engine_selftest():
    """Deterministic validation of the exact engine (incl. Gaussian elimination, absorber and
    component rules) against brute force on ALL systems of two constraints over three variables whose
    sides come from a menu of 8 linear combinations, p = 5."""
    import itertools
    p = 5
    menu = [{}, {0: 1}, {1: 1}, {2: 1}, {3: 1}, {1: 1, 2: 1}, {2: 2, 3: 1}, {1: 1, 3: 4, 0: 2}]
    n = agree = undecided = 0
    bad = []
    for c1 in itertools.product(range(len(menu)), repeat=3):
        for c2 in itertools.product(range(0, len(menu), 2), repeat=3):
            cons = [tuple(menu[i] for i in c1), tuple(menu[i] for i in c2)]
            b, _ = W.brute(cons, 3, {}, p)
            sols, undec, _ = W.exact(cons, 3, {}, p)
            n += 1
            if undec:
                undecided += 1
                continue
            ex = set()
            red = W.reduce_system(cons, p)
            for s in sols:
                ex.update(W.expand(s, p, 3, cons=red))
            if ex == set(b):
                agree += 1
            elif len(bad) < 3:
                bad.append(repr(cons))
    # weighted-sum rule: booleans b1..b3 (+ b5), an unknown q, over p = 31 / 13 (13 makes sums wrap, so the
    # rule must stand aside): sum c_i b_i = k ; sum c_i b_i = q with q^2 = m ; sum c_i b_i = q with d*q + b5 = t
    for p in (31, 13):
        coeffs = (1, 2, 4, 3, p - 1, 6)
        boolc = lambda v: ({v: 1}, {0: 1, v: p - 1}, {})
        for cs in itertools.product(coeffs, repeat=3):
            lin = {1: cs[0], 2: cs[1], 3: cs[2]}
            systems = []
            for k in (0, 1, 3, 5, 7, p - 1):
                systems.append(([boolc(1), boolc(2), boolc(3), ({0: 1}, dict(lin), {0: k})], 3))
            for m in (0, 1, 4, 9):
                systems.append(([boolc(1), boolc(2), boolc(3), ({0: 1}, dict(lin), {4: 1}), ({4: 1}, {4: 1}, {0: m})], 4))
            for d, t in ((1, 3), (2, 5), (3, 0), (2, 11)):
                systems.append(([boolc(1), boolc(2), boolc(3), boolc(5), ({0: 1}, dict(lin), {4: 1}), ({0: d}, {4: 1}, {0: t, 5: p - 1})], 5))
            for cons, nv in systems:
                b, _ = W.brute(cons, nv, {}, p)
                sols, undec, _ = W.exact(cons, nv, {}, p)
                n += 1
                if undec:
                    undecided += 1
                    continue
                ex = set()
                red = W.reduce_system(cons, p)
                for s_ in sols:
                    ex.update(W.expand(s_, p, nv, cons=red))
                if ex == set(b):
                    agree += 1
                elif len(bad) < 3:
                    bad.append(repr((p, cons)))
    return n, agree, undecided, bad


def run(ctx):
    from .. import xfeat
    xfeat.sound_sweep(ctx, modes=("plain", "reuse"))      # witness spaces of the cross-feature compositions (pv/xfeat.py)
    progs = value_programs()
    d2 = depth2_programs()
    tasks = []
    if ctx.thorough:
        real = [(2, REC.BN128), (3, REC.BN128), (4, REC.BN128), (3, REC.BLS12_381), (2, REC.CURVE25519),
                (3, REC.CURVE25519)]
        small = [(2, 11), (2, 13), (3, 17), (3, 19), (3, 23), (4, 37)]
    else:
        real = [(3, REC.BN128), (2, [REC.BLS12_381, REC.CURVE25519][ctx.seed % 2])]
        small = [(3, 17), (2, [11, 13][ctx.seed % 2])]
    for n, p in real:
        for prog in progs:
            tasks.append(("real", prog, n, p, E.D(n)))
    # realistic bitlengths (beyond the completely enumerated ones) on a boundary lattice: the bit-decomposition
    # gadgets are solved by the engine's weighted-sum rule, so the width costs nothing
    wide = [(17, REC.BN128), (65, REC.BLS12_381)] if not ctx.thorough else [(8, REC.BN128), (16, REC.BN128), (17, REC.BN128), (33, REC.BLS12_381), (65, REC.CURVE25519)]
    for n, p in wide:
        for prog in progs:
            if O.expr_str(prog["expr"], prog["kinds"]) in HEAVY or "F" in prog["kinds"] or "P" in prog["kinds"]:
                continue
            tasks.append(("real", prog, n, p, E.wide_lattice(n, full=ctx.thorough)))
    # history-dependent soundness: same call on the same operand objects after an untaken branch
    for prog in progs:
        tasks.append(("reuse", prog, 2, REC.BN128, E.D(2)))
        if ctx.thorough:
            tasks.append(("reuse", prog, 3, REC.BLS12_381, E.D(3)))
    for prog in d2:
        tasks.append(("real", prog, 2, REC.BN128, E.D(2) if ctx.thorough else list(range(-3, 4))))
        if ctx.thorough:
            tasks.append(("real", prog, 3, REC.BN128, list(range(-4, 5))))
    # secret-index array access: contents x index (element read; every element after a write)
    I = lambda i: ("in", i)
    for kinds in (["S", "S", "S", "S"], ["K", "S", "K", "S"]):
        tasks.append(("real", {"expr": ("op", "array_get", I(0), I(1), I(2), I(3)), "kinds": kinds}, 3, REC.BN128, [0, 1, 2, 5]))
    tasks.append(("real", {"expr": ("op", "array_set", I(0), I(1), I(2), I(3), I(4)), "kinds": ["S", "K", "S", "S", "S"]}, 3, REC.BN128, [0, 1, 2, 5] if ctx.thorough else [0, 2, 5]))
    for n, p in small:
        for prog in progs:
            nm = O.expr_str(prog["expr"], prog["kinds"])
            if nm in HEAVY and not (ctx.thorough and n == 2):
                continue
            if "A" in prog["kinds"] or "P" in prog["kinds"]:
                continue        # engine cross-validation needs no array / public-operand instances (same gadgets, more variables)
            tasks.append(("xval", prog, n, p, E.D(n)))
    random.Random(ctx.seed).shuffle(tasks)
    tasks.sort(key=lambda t: 0 if O.expr_str(t[1]["expr"], t[1]["kinds"]) in HEAVY or t[2] >= 4 else 1)
    results = common.pool_map(_task, tasks, init=_init)
    agg = {}
    sol_counts = set()
    for r in results:
        sc = r["st"].pop("distinct_solution_counts")
        sol_counts |= sc
        common.merge_counts(agg, r["st"])
        for v in r["viols"].values():
            ctx.violations.append({"sig": v["sig"], "case": v["case"], "what": v["what"] + " (x%d)" % v["count"]})
        for d in r["dis"]:
            ctx.harness_errors.append("engines disagree: " + d)
    from .. import e1
    e1.dedupe_violations(ctx)
    if agg.get("harness_error"):
        ctx.harness_errors.append("%d counterexamples failed re-verification" % agg["harness_error"])
    n, agree, und, bad = engine_selftest()
    agg["selftest_systems"], agg["selftest_agree"], agg["selftest_undecided"] = n, agree, und
    for b in bad:
        ctx.harness_errors.append("exact engine disagrees with brute force on " + b)
    ctx.cov.update(agg)
    ctx.cov["states"] = agg["nodes"] + agg["brute_nodes"]
    ctx.cov["transitions"] = agg["nodes"] + agg["brute_nodes"]
    ctx.cov["executions"] = agg["instances"] + agg["xval_instances"]
    ctx.cov["distinct_outcomes"] = len(sol_counts) + agg["instances"]
    ctx.cov["traces_validated_against_impl"] = agg["xval_agree"] + agree
    ctx.cov["real_field_configs"] = [{"bitlength": n, "field_bits": p.bit_length()} for n, p in real]
    ctx.cov["wide_configs"] = [{"bitlength": n, "field_bits": p.bit_length(), "values": len(E.wide_lattice(n, full=ctx.thorough))} for n, p in wide]
    ctx.cov["small_field_configs"] = [{"bitlength": n, "p": p} for n, p in small]
    ctx.cov["exhaustive"] = agg["undecided"] == 0 and agg["capped"] == 0
    ctx.cov["rule"] = ("instance = one value-returning program (all operators x SS/SK/KS, unary, selection, "
                       "boolean combinations; 7 depth-2 compositions) traced on the real code for one operand "
                       "vector of D(n) on which the honest run completes; operands pinned; ALL satisfying "
                       "assignments of the remaining variables enumerated exactly in the real field; oracle: "
                       "every result wire evaluates to the honest value in every solution and depends on no "
                       "free variable. states/transitions = search nodes of the enumerations; "
                       "traces_validated_against_impl = small-field instances on which brute force and the "
                       "exact engine returned identical solution sets")
    ctx.assumptions += ["alarm only with a concrete real-field witness that re-verifies against every recorded constraint",
                        "complete operand intervals only for bitlengths 2..4; bitlengths 8..65 on a boundary lattice of operand values (all witness choices each)"]
    ctx.sample({"program": "floordiv(S0, S1)", "inputs": [7, 2], "bitlength": 3, "solutions": 2,
                "note": "quotient 7*2^-1 mod p with remainder 0 also satisfies the system (known finding)"})


def replay(case):
    if isinstance(case, dict) and case.get("xfeat"):
        from .. import xfeat
        return xfeat.sound_replay(case)
    H.bind(case["p"])
    prog = {"expr": _t(case["prog"]["expr"]), "kinds": list(case["prog"]["kinds"])}
    st = {"instances": 0, "skipped_raise": 0, "undecided": 0, "capped": 0, "nodes": 0, "solutions": 0,
          "harness_error": 0, "distinct_solution_counts": set()}
    viols = []
    analyse(prog, tuple(case["vals"]), case["mode"], case["n"], case["p"], st, viols)
    return {"program": O.expr_str(prog["expr"], prog["kinds"]), "inputs": case["vals"],
            "solutions": st["solutions"], "violations": [{"sig": v[0], "what": v[1]} for v in viols]}


def _t(e):
    return tuple(_t(x) for x in e) if isinstance(e, list) else e
