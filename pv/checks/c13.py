"""C13: backend linear combinations are a faithful immutable algebra over the backend's prime field.

Exhaustive enumeration of expression trees (leaves zero/one/v1/v2 incl. shared objects; operators
+ - neg and scaling by 0, 1, -1, 2, p-1, p, p+1, -(p+2), 2^300) built directly on each backend's own
linear-combination class; every node's linear form (and its evaluation on 16 assignments) is compared
with the field expression, and every operand is checked to be unchanged after every operation.
Modulus: tabulated scalar-field order + BPSW primality test; fieldinverse on ~30 arguments."""
import importlib
import io
import os
import random
import shutil
import sys
import tempfile

from .. import common
from .. import recorder as REC
from . import c11, c12

BACKENDS = {
    "snarkjs": ("pysnark.snarkjsbackend", REC.BN128),
    "zkinterface": ("pysnark.zkinterface.backend", REC.BN128),
    "zkifbellman": ("pysnark.zkinterface.backendbellman", REC.BLS12_381),
    "zkifbulletproofs": ("pysnark.zkinterface.backendbulletproofs", REC.CURVE25519),
    "qaptools": ("pysnark.qaptools.backend", REC.BN128),
    "recorder(control)": (None, REC.BN128),
}


# ------------------------------------------------------------------------------------------------
# deterministic primality (Baillie-PSW: strong base-2 Miller-Rabin + strong Lucas), harness-side

def _jacobi(a, n):
    a %= n
    r = 1
    while a:
        while a % 2 == 0:
            a //= 2
            if n % 8 in (3, 5):
                r = -r
        a, n = n, a
        if a % 4 == 3 and n % 4 == 3:
            r = -r
        a %= n
    return r if n == 1 else 0


def _mr2(n):
    d, s = n - 1, 0
    while d % 2 == 0:
        d //= 2
        s += 1
    x = pow(2, d, n)
    if x in (1, n - 1):
        return True
    for _ in range(s - 1):
        x = x * x % n
        if x == n - 1:
            return True
    return False


def _lucas(n):
    import math
    if math.isqrt(n) ** 2 == n:
        return False
    D = 5
    while True:
        j = _jacobi(D, n)
        if j == -1:
            break
        if j == 0 and abs(D) != n:
            return False
        D = -(D + 2) if D > 0 else -(D - 2)
    P, Q = 1, (1 - D) // 4
    d, s = n + 1, 0
    while d % 2 == 0:
        d //= 2
        s += 1
    U, V, Qk = 1, P, Q
    inv2 = pow(2, -1, n)
    for bit in bin(d)[3:]:
        U, V = U * V % n, (V * V - 2 * Qk) % n
        Qk = Qk * Qk % n
        if bit == "1":
            U, V = (P * U + V) * inv2 % n, (D * U + P * V) * inv2 % n
            Qk = Qk * Q % n
    if U == 0 or V == 0:
        return True
    for _ in range(s - 1):
        V = (V * V - 2 * Qk) % n
        Qk = Qk * Qk % n
        if V == 0:
            return True
    return False


def is_prime_bpsw(n):
    if n < 2:
        return False
    for q in (2, 3, 5, 7, 11, 13, 17, 19, 23, 29, 31, 37):
        if n % q == 0:
            return n == q
    return _mr2(n) and _lucas(n)


# ------------------------------------------------------------------------------------------------

class Api:
    """Uniform view of one backend's LC class: leaves and linear form extraction."""

    def __init__(self, name):
        self.name = name
        mod, self.p_expected = BACKENDS[name]
        if mod is None:
            self.m = REC.make(REC.BN128, "pv_control_recorder")
            self.kind = "dict"
        else:
            if common.TREE not in sys.path:
                sys.path.insert(0, common.TREE)
            if "zkinterface" in mod:
                c11.ensure_flatbuffers()
            if "qaptools" in mod:
                os.environ["QAPTOOLS_BIN"] = c12.STUBS
                self.tmp = tempfile.mkdtemp(prefix="pv-c13-")
                os.chdir(self.tmp)
                from multiprocessing import util
                util.Finalize(None, shutil.rmtree, args=(self.tmp, True), exitpriority=1)
                sys.stderr = io.StringIO()
            self.m = importlib.import_module(mod)
            self.kind = "sig" if "qaptools" in mod else "dict"
        self.v1 = self.m.privval(7)
        self.v2 = self.m.pubval(9)
        self.k1 = self._key(self.v1)
        self.k2 = self._key(self.v2)
        self.k0 = self._key(self.m.one())
        self.p = self.m.get_modulus()

    def _key(self, obj):
        if self.kind == "sig":
            return obj.sig[0][1]
        return next(iter(obj.lc))

    def form(self, obj):
        """(coeff of one, v1, v2) mod p, plus whether anything else occurs."""
        p = self.p
        acc = {}
        if self.kind == "sig":
            for c, nm in obj.sig:
                acc[nm] = acc.get(nm, 0) + c
        else:
            for k, c in obj.lc.items():
                acc[k] = acc.get(k, 0) + c
        f = (acc.pop(self.k0, 0) % p, acc.pop(self.k1, 0) % p, acc.pop(self.k2, 0) % p)
        junk = any(v % p for v in acc.values())
        return f, junk

    def snap(self, obj):
        return repr(obj.sig) if self.kind == "sig" else repr(sorted(obj.lc.items()))


def scalars(p):
    return [0, 1, -1, 2, p - 1, p, p + 1, -(p + 2), 2 ** 300]


def explore(name, level, seed):
    api = Api(name)
    p = api.p
    st = {"trees": 0, "transitions": 0, "evaluations": 0, "immutability_checks": 0}
    viols = []
    forms = set()

    def bad(klass, text):
        if len(viols) < 50:
            viols.append((klass, text))

    K = scalars(p)
    shared_one = api.m.one()
    leaves = [("zero", api.m.zero(), (0, 0, 0)), ("one", shared_one, (1, 0, 0)), ("v1", api.v1, (0, 1, 0)),
              ("v2", api.v2, (0, 0, 1)), ("v1'", api.v1, (0, 1, 0))]
    ASG = [(a, b) for a in (0, 1, 2, p - 1) for b in (0, 1, 2, p - 1)]

    def check(desc, obj, want, operands, do_eval):
        st["trees"] += 1
        st["transitions"] += 1
        f, junk = api.form(obj)
        if junk or f != tuple(x % p for x in want):
            bad("wrong-linear-form", "%s evaluates to form %s, field expression is %s" % (desc, f, tuple(x % p for x in want)))
        forms.add(f)
        if do_eval:
            for a, b in ASG:
                st["evaluations"] += 1
                if (f[0] + f[1] * a + f[2] * b) % p != (want[0] + want[1] * a + want[2] * b) % p:
                    bad("wrong-evaluation", "%s on (v1,v2)=(%d,%d)" % (desc, a, b))
                    break
        for od, oo, osnap in operands:
            st["immutability_checks"] += 1
            if api.snap(oo) != osnap:
                bad("operand-mutated", "%s changed its operand %s from %s to %s" % (desc, od, osnap[:80], api.snap(oo)[:80]))

    def grow(prev, new_only_with, do_eval, sample=None, rnd=None):
        out = []
        pool = prev
        # unary
        for d, o, w in pool:
            s = api.snap(o)
            r = -o
            check("-(%s)" % d, r, tuple(-x for x in w), [(d, o, s)], do_eval)
            out.append(("-(%s)" % d, r, tuple(-x for x in w)))
            for k in K:
                s = api.snap(o)
                r = o * k
                kk = "p%+d" % (k - p) if abs(k - p) < 3 else ("-(p+2)" if k == -(p + 2) else ("2^300" if k == 2 ** 300 else str(k)))
                check("(%s)*%s" % (d, kk), r, tuple(x * k for x in w), [(d, o, s)], do_eval)
                out.append(("(%s)*%s" % (d, kk), r, tuple(x * k for x in w)))
        # binary
        for d1, o1, w1 in pool:
            for d2, o2, w2 in (new_only_with if new_only_with is not None else pool):
                if sample is not None and rnd.random() > sample:
                    continue
                s1, s2 = api.snap(o1), api.snap(o2)
                r = o1 + o2
                check("(%s)+(%s)" % (d1, d2), r, tuple(a + b for a, b in zip(w1, w2)), [(d1, o1, s1), (d2, o2, s2)], do_eval)
                out.append(("(%s)+(%s)" % (d1, d2), r, tuple(a + b for a, b in zip(w1, w2))))
                r = o1 - o2
                check("(%s)-(%s)" % (d1, d2), r, tuple(a - b for a, b in zip(w1, w2)), [(d1, o1, s1), (d2, o2, s2)], do_eval)
                out.append(("(%s)-(%s)" % (d1, d2), r, tuple(a - b for a, b in zip(w1, w2))))
        return out

    rnd = random.Random(seed)
    l0 = leaves
    l1 = grow(l0, None, True)
    l2 = grow(l0 + l1, None, True)
    # depth 3: every unary operator on every depth-2 tree, and binary operators with the leaves
    sub = l2 if level >= 1 else l2[:: 4]
    l3 = grow(sub, l0, False)
    # long sums (no size-dependent representation may change the meaning): left-deep chains of length 1..14 built
    # from every cyclic pattern of three signed / scaled leaves, used as left and as right operand and added to themselves
    import itertools
    atoms = [("one", shared_one, (1, 0, 0), 1), ("v1", api.v1, (0, 1, 0), 1), ("v1", api.v1, (0, 1, 0), -1),
             ("v2", api.v2, (0, 0, 1), 1), ("v2", api.v2, (0, 0, 1), 3), ("v1", api.v1, (0, 1, 0), p - 1)]
    nlong = 0
    for pat in itertools.product(range(len(atoms)), repeat=3):
        acc, want, desc = api.m.zero(), (0, 0, 0), "0"
        LONG = 40 if pat[0] != pat[1] or pat[1] != pat[2] else 300     # one-atom patterns run to 300 terms
        for L in range(LONG):
            d, o, w, k = atoms[pat[L % 3]]
            term = o if k == 1 else o * k
            s_acc = api.snap(acc)
            if k == -1:
                acc2, want2 = acc - o, tuple(a - b for a, b in zip(want, w))
            else:
                acc2, want2 = acc + term, tuple(a + b * k for a, b in zip(want, w))
            desc2 = desc + ("-" if k == -1 else "+") + d + ("" if k in (1, -1) else "*k")
            check("chain " + desc2, acc2, want2, [(desc, acc, s_acc)], False)
            acc, want, desc = acc2, want2, desc2
            nlong += 1
            if L in (3, 7, 8, 9, 13, 15, 16, 17, 31, 32, 33, 39, 63, 64, 65, 127, 128, 129, 255, 256, 257, 299):
                s_acc = api.snap(acc)
                check("v2+(chain %s)" % desc, api.v2 + acc, tuple(a + b for a, b in zip((0, 0, 1), want)), [(desc, acc, s_acc)], False)
                check("(chain %s)+(same chain)" % desc, acc + acc, tuple(2 * a for a in want), [(desc, acc, s_acc)], False)
                check("(chain %s)-(same chain)" % desc, acc - acc, (0, 0, 0), [(desc, acc, s_acc)], False)
                check("(chain %s)*(p-1)" % desc, acc * (p - 1), tuple(-a for a in want), [(desc, acc, s_acc)], False)
    st["long_chain_steps"] = nlong
    # many variables: combinations over 4..6 variables built in DIFFERENT insertion orders with non-uniform coefficients;
    # sums / differences of two combinations with the same support, overlapping support, disjoint support
    vs = [api.m.privval(20 + i) for i in range(6)]
    keys = [api._key(v) for v in vs]

    def gform(obj):
        acc = {}
        if api.kind == "sig":
            for c, nm in obj.sig:
                acc[nm] = (acc.get(nm, 0) + c) % p
        else:
            for k_, c in obj.lc.items():
                acc[k_] = (acc.get(k_, 0) + c) % p
        return {k_: c for k_, c in acc.items() if c}

    def build(order, coefs):
        o, w = api.m.zero(), {}
        for i in order:
            o = o + (vs[i] * coefs[i] if coefs[i] != 1 else vs[i])
            w[keys[i]] = (w.get(keys[i], 0) + coefs[i]) % p
        return o, w
    nmulti = 0
    coefsets = [(1, 1, 1, 1, 1, 1), (3, 5, 7, 9, 11, 13), (p - 1, 2, p - 3, 4, 1, 6), (2 ** 300, 1, 1, 1, 1, 1)]
    supports = [(0, 1, 2, 3), (0, 1, 2, 3, 4), (0, 1, 2, 3, 4, 5), (2, 3, 4, 5), (0, 1), (4, 5, 0)]
    for sa in supports:
        for sb in supports:
            for ca in coefsets[:3]:
                for cb in coefsets:
                    for oa, ob in ((sa, tuple(reversed(sb))), (tuple(reversed(sa)), sb[1:] + sb[:1])):
                        a, wa = build(oa, ca)
                        b, wb = build(ob, cb)
                        sna, snb = api.snap(a), api.snap(b)
                        for opn, r, sign in (("+", a + b, 1), ("-", a - b, -1)):
                            nmulti += 1
                            st["trees"] += 1
                            st["transitions"] += 1
                            want = dict(wa)
                            for k_, c in wb.items():
                                want[k_] = (want.get(k_, 0) + sign * c) % p
                            want = {k_: c for k_, c in want.items() if c}
                            if gform(r) != want:
                                bad("wrong-linear-form", "(combination over variables %s, coefficients %s) %s (combination over %s in order %s, coefficients %s) has a wrong linear form"
                                    % (list(oa), [str(c)[:6] for c in ca[:len(oa)]], opn, list(sb), list(ob), [str(c)[:6] for c in cb[:len(ob)]]))
                        if api.snap(a) != sna or api.snap(b) != snb:
                            bad("operand-mutated", "sum / difference of two many-variable combinations changed an operand")
    st["multi_variable_sums"] = nmulti
    # scaling CHAINS: up to 8 successive scalings by field-size constants (coefficients of 2000+ bits if kept unreduced),
    # as repeated exact division / Horner evaluation produces them; every intermediate form is checked
    half = (p + 1) // 2
    nscale = 0
    for d, o, w in (("v1", api.v1, (0, 1, 0)), ("v1-v2", api.v1 - api.v2, (0, 1, p - 1)), ("v2*3-one", api.v2 * 3 - shared_one, (p - 1, 0, 3))):
        for ks in ((half,) * 8, (p - 1, 2 ** 300, half, p - 2, 2 ** 255 + 19, half, 3, p - 1), (-(p + 2),) * 6, (2 ** 1100, p - 1), (-(2 ** 1030), 3, half)):
            cur, want, desc = o, w, d
            for k in ks:
                s0 = api.snap(cur)
                nxt = cur * k
                want = tuple(x * k % p for x in want)
                desc = "(%s)*k" % desc if len(desc) > 40 else "(%s)*%s" % (desc, "half" if k == half else (str(k) if abs(k) < 10 else "%d-bit" % k.bit_length()))
                check("scaling chain " + desc, nxt, want, [("previous", cur, s0)], False)
                nscale += 1
                cur = nxt
            check("scaling chain, then + v1: " + desc, cur + api.v1, (want[0], want[1] + 1, want[2]), [], False)
            check("scaling chain, then negated: " + desc, -cur, tuple(-x for x in want), [], False)
    st["scaling_chain_steps"] = nscale
    # in-place operators on the backend class, and the shared constants afterwards
    for opn in ("+=", "-=", "*="):
        z, o1 = api.m.zero(), api.m.one()
        sz, so = api.snap(z), api.snap(o1)
        acc = api.m.zero()
        try:
            if opn == "+=":
                acc += api.v1
                want = (0, 1, 0)
            elif opn == "-=":
                acc -= api.v2
                want = (0, 0, p - 1)
            else:
                acc = api.m.one()
                acc *= 5
                want = (5, 0, 0)
        except TypeError:
            continue
        check("zero/one %s leaf" % opn, acc, want, [("an earlier zero()", z, sz), ("an earlier one()", o1, so)], False)
        for nm, fresh, wf in (("zero()", api.m.zero(), (0, 0, 0)), ("one()", api.m.one(), (1, 0, 0))):
            f, junk = api.form(fresh)
            st["trees"] += 1
            if junk or f != wf:
                bad("constant-changed-by-in-place-operator", "after `acc = zero(); acc %s leaf` a fresh %s has the form %s" % (opn, nm, f))
        lf, junk = api.form(api.v1)
        if lf != (0, 1, 0):
            bad("leaf-mutated", "after an in-place operator the leaf v1 has the form %s" % (lf,))
    # the shared leaves must still be what they were
    for d, o, w in leaves:
        f, junk = api.form(o)
        if junk or f != w:
            bad("leaf-mutated", "leaf %s now has form %s" % (d, f))
    # modulus and inverse
    if p != api.p_expected:
        bad("modulus-not-the-curve-order", "get_modulus() = %d" % p)
    if not is_prime_bpsw(p):
        bad("modulus-not-prime", "get_modulus() = %d is composite" % p)
    inv_args = [1, -1, 2, -2, 3, 7, p - 1, -(p - 1), p + 1, -(p + 5), 2 * p + 3, 2 ** 300, -(2 ** 300) - 1, (p - 1) // 2,
                (p + 1) // 2, p - 2, 2 ** 64, -(2 ** 64), 12345678901234567890, p * p + 1, 5 * p - 1, -3 * p + 2, 6, 10 ** 30,
                2 ** 253, -(2 ** 200), 65537, p + 2, -7, 2 ** 128 + 1]
    # structured arguments: every power of two up to 2^40 (and its negative / neighbours), small multipliers, +-1000 window
    inv_args += [2 ** k for k in range(2, 41)] + [-(2 ** k) for k in range(1, 41, 3)] + [2 ** k - 1 for k in range(2, 41, 2)]
    inv_args += [5, 9, 10, 12, 100, 255, 256, 257, 990, 997, 999, 1000, 1001, -3, -10, -990, -999, -1000, 1023, 1024, 4096, 65535, 65536]
    ninv = 0
    for a in inv_args:
        ninv += 1
        try:
            r = api.m.fieldinverse(a)
        except Exception as ex:  # noqa: BLE001
            bad("fieldinverse-raises", "fieldinverse(%d) raised %s" % (a, type(ex).__name__))
            continue
        if not isinstance(r, int) or (r * a - 1) % p:
            bad("fieldinverse-wrong", "fieldinverse(%d) = %r is not the inverse mod p" % (a, r))
    for a in (0, p, -p, 3 * p):
        ninv += 1
        try:
            r = api.m.fieldinverse(a)
            bad("fieldinverse-of-zero-returns", "fieldinverse(%d) returned %r instead of raising" % (a, r))
        except Exception:  # noqa: BLE001
            pass
    st["inverse_checks"] = ninv
    st["distinct_forms"] = len(forms)
    return {"name": name, "st": st, "viols": viols}


def _task(t):
    name, level, seed = t
    return explore(name, level, seed)


def run(ctx):
    level = 1 if ctx.thorough else 0
    tasks = [(n, level, ctx.seed) for n in BACKENDS]
    # one process per backend (module-level state, one field per import)
    import multiprocessing
    with multiprocessing.get_context("fork").Pool(len(tasks), maxtasksperchild=1) as pool:
        results = pool.map(_task, tasks, 1)
    agg = {}
    for r in results:
        st = r["st"]
        ctx.cov.setdefault("per_backend", {})[r["name"]] = dict(st)
        common.merge_counts(agg, st)
        for klass, text in r["viols"]:
            ctx.violation({"klass": klass, "backend": r["name"]}, {"backend": r["name"]}, "[%s] %s" % (r["name"], text))
    from .. import e1
    e1.dedupe_violations(ctx)
    ctx.cov.update(agg)
    ctx.cov["executions"] = agg["trees"]
    ctx.cov["states"] = agg["distinct_forms"]
    ctx.cov["distinct_outcomes"] = agg["distinct_forms"]
    ctx.cov["traces_validated_against_impl"] = agg["trees"]
    ctx.cov["exhaustive"] = True
    ctx.cov["rule"] = ("expression trees over leaves zero/one/v1/v2/shared v1 with + - neg and 9 scalars (left-deep sums of up to 40 (300 for single-atom patterns) terms with repeated wires, and sums / differences of combinations over 4-6 variables built in different insertion orders, for every cyclic pattern of three signed / scaled leaves): ALL trees of depth <= 2 "
                       "(evaluated on 16 assignments), every unary operator and leaf-binary operator on depth-2 trees (all of "
                       "them thorough, every 4th quick) compared by linear form mod p; operands re-inspected after every "
                       "operation; per backend: snarkjs, zkinterface x3 fields, qaptools Sig, recorder as control; "
                       "states = distinct linear forms produced")
    ctx.assumptions.append("libsnark's class lives in an absent C++ extension and nobackend is a documented no-op: both excluded")
    ctx.sample({"backend": "zkifbellman", "tree": "((v1)+(v2))*p+1 - (one)", "form": "(-1, 1, 1) mod p"})


def replay(case):
    r = explore(case["backend"], 0, 0)
    return {"backend": case["backend"], "violations": [{"klass": k, "what": t} for k, t in r["viols"]]}
