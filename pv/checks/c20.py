"""C20: hash gadgets equal a plain reference and use the active backend's parameters.

Poseidon permutation and sponge (three fields, recorder impersonating the zkinterface backends) and
the subset-sum hash are run on an exhaustively enumerated bounded input space and compared with an
independent plain-integer implementation (pv/ref_poseidon.py) and the published vectors; padding
injectivity is checked on the real padding code for all messages up to 9 elements; the parameter
table in effect is checked for every way a backend can be selected (fresh interpreters)."""
import itertools
import json
import random

from .. import common
from .. import harness as H
from .. import recorder as REC
from .. import ref_poseidon as RP
from . import c19

FIELDS = {"zkinterface": ("pysnark.zkinterface.backend", REC.BN128),
          "zkifbellman": ("pysnark.zkinterface.backendbellman", REC.BLS12_381),
          "zkifbulletproofs": ("pysnark.zkinterface.backendbulletproofs", REC.CURVE25519)}
PUBLISHED = {
    "zkinterface": [0x299c867db6c1fdd79dcefa40e4510b9837e60ebb1ce0663dbaa525df65250465,
                    0x1148aaef609aa338b27dafd89bb98862d8bb2b429aceac47d86206154ffe053d,
                    0x24febb87fed7462e23f6665ff9a0111f4044c38ee1672c1ac6b0637d34f24907,
                    0x0eb08f6d809668a981c186beaf6110060707059576406b248e5d9cf6e78b3d3e,
                    0x07748bc6877c9b82c8b98666ee9d0626ec7f5be4205f79ee8528ef1c4a376fc7],
    "zkifbellman": [0x2a918b9c9f9bd7bb509331c81e297b5707f6fc7393dcee1b13901a0b22202e18,
                    0x65ebf8671739eeb11fb217f2d5c5bf4a0c3f210e3f3cd3b08b5db75675d797f7,
                    0x2cc176fc26bc70737a696a9dfd1b636ce360ee76926d182390cdb7459cf585ce,
                    0x4dc4e29d283afd2a491fe6aef122b9a968e74eff05341f3cc23fda1781dcb566,
                    0x03ff622da276830b9451b88b85e6184fd6ae15c8ab3ee25a5667be8592cce3b1],
}
_ST = {}


def _init(name):
    mod, p = FIELDS[name]
    H.bind(p, mod)
    import pysnark.poseidon_hash as ph
    from pysnark.poseidon_constants import poseidon_constants
    import pysnark.ggh_hash as gg
    _ST.update(ph=ph, gg=gg, name=name, p=p, C=poseidon_constants[name], tables=poseidon_constants)


def _init_real(name):
    """The REAL zkinterface backend module of this field (its own linear-combination arithmetic and modulus)."""
    from .. import e1
    mod, p = FIELDS[name]
    e1.bind_real_worker(mod)
    import pysnark.poseidon_hash as ph
    from pysnark.poseidon_constants import poseidon_constants
    import pysnark.ggh_hash as gg
    _ST.update(ph=ph, gg=gg, name=name, p=p, C=poseidon_constants[name], tables=poseidon_constants, real=mod)


def states(p, level):
    vals = [0, 1, 2, p - 1]
    out = [(0, 1, 2, 3, 4), (0, 0, 0, 0, 0)]
    for i, j in itertools.combinations(range(5), 2):
        for a, b in itertools.product(vals[1:], repeat=2):
            if level == 0 and (a, b) not in ((1, 1), (1, p - 1), (2, 1), (p - 1, p - 1)):
                continue
            s = [0] * 5
            s[i], s[j] = a, b
            out.append(tuple(s))
    for i in range(5):
        for a in vals[1:]:
            s = [0] * 5
            s[i] = a
            out.append(tuple(s))
    return out


def constant_states(p, C):
    """States chosen from the algorithm's own constants: lane j = -rc[0][j], so that the first S-box input of that lane
    is exactly 0 (and 1, and p-1): value-dependent shortcuts in the S-box change the trace there."""
    rc0 = C["round_constants"][0] if isinstance(C["round_constants"][0], (list, tuple)) else C["round_constants"][:5]
    out = []
    for j in range(5):
        for target in (0, 1, p - 1):
            s = [3, 4, 5, 6, 7]
            s[j] = (target - int(rc0[j])) % p
            out.append(tuple(s))
    out.append(tuple((0 - int(rc0[j])) % p for j in range(5)))
    return out


def messages(p, level):
    out = []
    for ln in range(0, 4):
        for m in itertools.product((0, 1, p - 1), repeat=ln):
            out.append(("int", m))
    for ln in (4, 5, 8, 9, 16, 17, 33) + ((12, 64, 65, 129) if level else ()):
        for pat in ((0,) * ln, (1,) * ln, tuple(i % 2 for i in range(ln))):
            out.append(("int", pat))
    for m in ((0, 1), (1, 1, 0), (1, 0, 1, 1, 0)):
        out.append(("bool", m))
    for m in ((1,), (3, 2), (3, 2, 1, 5, 7), (1, 2, 3, 4, 5, 6, 7, 8, 9)):
        out.append(("fxp", m))          # fixed-point wires in the second and third sponge block as well
    for m in ((1, 0, 1, 1, 0, 1, 1, 0, 0),):
        out.append(("bool", m))
    # messages mixing wire types (element k: integer, fixed point, boolean in turn), one to three blocks
    for m in ((5, 3, 1), (5, 3, 1, 7, 2, 0), (2, 1, 1, 4, 3, 0, 6, 5, 1, 8)):
        out.append(("mixed", m))
    return out


def _task(t):
    kind, name, item = t
    ph, p, C = _ST["ph"], _ST["p"], _ST["C"]
    rt = H.rt
    st = {"executions": 0, "transitions": 0, "compared": 0}
    viols = []

    def bad(klass, text):
        if _ST.get("real"):
            viols.append(({"klass": klass, "field": name, "backend": "real"}, "[%s, real backend module %s] %s" % (name, _ST["real"], text)))
        else:
            viols.append(({"klass": klass, "field": name}, "[%s] %s" % (name, text)))

    if ph.round_constants is not C["round_constants"] or ph.R_P != C["R_P"]:
        tab = [k for k, v in _ST["tables"].items() if v["round_constants"] is ph.round_constants]
        bad("wrong-parameter-table", "backend_name=%s but Poseidon uses the table of %s" % (rt.backend_name, tab))
        return {"st": st, "viols": viols, "ncons": None}
    H.reset(bitlength=16, resolution=2)
    ncons = None
    st["executions"] += 1
    if kind == "perm" and item and item[0] == "const":
        item = constant_states(p, C)[item[1]]
    if kind == "perm":
        inp = [rt.PrivVal(v) for v in item]
        out = ph.permute(inp)
        want = RP.permute(list(item), C, p)
        got = [x.value % p for x in out]
        ncons = len(H.R.cons)
        st["transitions"] += ncons
        st["compared"] += 1
        if got != want:
            bad("permutation-differs-from-reference", "permute(%s) = %s..., reference %s..." % (list(item), hex(got[0])[:14], hex(want[0])[:14]))
        if item == (0, 1, 2, 3, 4) and name in PUBLISHED and got != PUBLISHED[name]:
            bad("published-vector-not-reproduced", "permute(0,1,2,3,4) does not give the published vector")
        if any(not (0 <= x.value < p) for x in out):
            bad("output-not-canonical", "an output value is outside [0, p)")
        res = out
    elif kind == "sponge":
        typ, msg = item
        if typ == "int":
            inp = [rt.PrivVal(v) for v in msg]
            plain = list(msg)
        elif typ == "bool":
            inp = [H.boolean.PrivValBool(v) for v in msg]
            plain = list(msg)
        elif typ == "mixed":
            inp, plain = [], []
            for k_, v in enumerate(msg):
                if k_ % 3 == 0:
                    inp.append(rt.PrivVal(v)); plain.append(v)
                elif k_ % 3 == 1:
                    inp.append(H.fixedpoint.PrivValFxp(v)); plain.append(v * 4)
                else:
                    inp.append(H.boolean.PrivValBool(v)); plain.append(v)
        else:
            inp = [H.fixedpoint.PrivValFxp(v) for v in msg]
            plain = [v * 4 for v in msg]
        n_in = len(inp)
        out = ph.poseidon_hash(inp)
        want = RP.sponge_hash(plain, C, p)
        got = [x.value % p for x in out]
        if len(inp) != n_in:
            bad("caller-list-modified", "poseidon_hash changed the caller's message list from %d to %d elements" % (n_in, len(inp)))
        if typ == "int" and len(msg) in (1, 4) and not _ST.get("real"):
            # history: the same list object hashed a second time in the same run
            c1 = len(H.R.cons)
            out2 = ph.poseidon_hash(inp)
            if [x.value % p for x in out2] != want:
                bad("second-hash-of-same-list-differs", "hashing the same list object twice gives different digests for %s" % (list(msg),))
            if len(H.R.cons) - c1 != c1:
                bad("second-hash-different-constraint-count", "first hash %d constraints, second %d" % (c1, len(H.R.cons) - c1))
            del H.R.cons[c1:]
        ncons = (len(msg) // 4, len(H.R.cons) - (len(msg) if typ == "bool" else (len(msg[2::3]) if typ == "mixed" else 0)))
        trace_key = ("sponge", typ, len(msg))
        st["transitions"] += len(H.R.cons)
        st["compared"] += 1
        if got != want:
            bad("sponge-differs-from-reference", "poseidon_hash(%s %s) differs from the reference" % (typ, list(msg)[:6]))
        res = out
    elif kind == "padding":
        # run the real padding code with the permutation replaced by a recorder of its inputs
        seen = {}
        orig = ph.permute
        try:
            for ln in range(0, 10):
                for msg in itertools.product((0, 1), repeat=ln):
                    blocks = []

                    def fake(sponge):
                        blocks.append(tuple(x.value if hasattr(x, "value") else x for x in sponge[1:]))
                        return [rt.LinComb.ZERO] * len(sponge)
                    ph.permute = fake
                    ph.poseidon_hash([rt.ConstVal(v) for v in msg])
                    st["executions"] += 1
                    key = tuple(blocks)
                    if key in seen and seen[key] != msg:
                        bad("padding-collision", "messages %s and %s have the same padded form" % (list(seen[key]), list(msg)))
                    seen[key] = msg
                    flat = [v for b in blocks for v in b]
                    if flat != RP.pad(list(msg), 4):
                        bad("padding-differs-from-reference", "message %s absorbed as %s" % (list(msg), flat))
        finally:
            ph.permute = orig
        st["compared"] += len(seen)
        return {"st": st, "viols": viols, "ncons": None}
    elif kind == "gghlong":
        # inputs longer than any chunk / table size: 255..257, 300, 511..513 (and 1025 thorough) bits, three patterns
        gg = _ST["gg"]
        n = 0
        for ln in item:
            for pat in ("ones", "alt", "tail"):
                bits = [1] * ln if pat == "ones" else ([i % 2 for i in range(ln)] if pat == "alt" else [0] * (ln - 3) + [1, 0, 1])
                want = RP.subset_sum_hash(bits, p)
                for mode in ("plain", "secret-int", "secret-bool"):
                    H.reset(bitlength=16)
                    v = list(bits) if mode == "plain" else ([rt.PrivVal(b) for b in bits] if mode == "secret-int" else [H.boolean.PrivValBool(b) for b in bits])
                    n += 1
                    try:
                        r = gg.ggh_hash(v)
                    except Exception as ex:  # noqa: BLE001
                        bad("subset-sum-raises", "ggh_hash(%s, %d bits %s) raises %s" % (mode, ln, pat, type(ex).__name__))
                        continue
                    got = (r.value if hasattr(r, "value") else r)
                    if got % p != want:
                        bad("subset-sum-differs-from-reference", "ggh_hash(%s, %d bits, pattern %s)" % (mode, ln, pat))
                    if hasattr(r, "lc") and (H.value_wire_mismatches(r) or H.R.unsatisfied()):
                        bad("subset-sum-invariant", "value/wire mismatch or unsatisfied constraint for %d bits" % ln)
        st["executions"] += n
        st["compared"] += n
        return {"st": st, "viols": viols, "ncons": None}
    elif kind == "ggh":
        gg = _ST["gg"]
        n = 0
        for ln in range(0, item + 1):
            for bits in itertools.product((0, 1), repeat=ln):
                want = RP.subset_sum_hash(bits, p)
                for mode in ("plain", "secret-int", "secret-bool", "mixed", "mixed-plain-first"):
                    if mode in ("mixed", "mixed-plain-first") and ln < 2:
                        continue
                    H.reset(bitlength=16)
                    if mode == "plain":
                        v = list(bits)
                    elif mode == "secret-int":
                        v = [rt.PrivVal(b) for b in bits]
                    elif mode == "secret-bool":
                        v = [H.boolean.PrivValBool(b) for b in bits]
                    elif mode == "mixed":
                        v = [rt.PrivVal(b) if i % 2 == 0 else b for i, b in enumerate(bits)]
                    else:
                        v = [H.boolean.PrivValBool(b) if i % 2 == 1 else b for i, b in enumerate(bits)]
                    n += 1
                    try:
                        r = gg.ggh_hash(v)
                    except Exception as ex:  # noqa: BLE001
                        bad("subset-sum-raises", "ggh_hash(%s bits %s) raises %s" % (mode, list(bits), type(ex).__name__))
                        continue
                    got = (r.value if hasattr(r, "value") else r)
                    if got % p != want:
                        bad("subset-sum-differs-from-reference", "ggh_hash(%s bits %s)" % (mode, list(bits)))
                    if hasattr(r, "lc") and (H.value_wire_mismatches(r) or H.R.unsatisfied()):
                        bad("subset-sum-invariant", "value/wire mismatch or unsatisfied constraint for %s" % (list(bits),))
        st["executions"] += n
        st["compared"] += n
        return {"st": st, "viols": viols, "ncons": None}
    if H.R.unsatisfied():
        bad("unsat", "constraints not satisfied for %s" % (item,))
    if H.value_wire_mismatches(res):
        bad("value!=wire", "output value differs from its wire for %s" % (item,))
    # the whole canonical trace (which wire occurs where), not only the number of constraints
    import hashlib
    tr = hashlib.sha1(repr(H.R.canonical_trace(0, 0)).encode()).hexdigest()[:16]
    return {"st": st, "viols": viols, "ncons": ncons, "kind": kind,
            "trace": ((("perm",) if kind == "perm" else trace_key), tr, repr(item)[:80])}


def lazy_import_children(ctx):
    """Fresh interpreters in which pysnark.poseidon_hash is imported for the FIRST time inside a secret-guarded region
    (false / true guard; only imported / also used there), then used in live code."""
    import os as _os
    import subprocess as _sp
    child = _os.path.join(common.VERIF, "pv", "children", "minimal_child.py")
    jobs = []
    for name, (mod, p) in FIELDS.items():
        for guard in (0, 1):
            for use_inside in (False, True):
                cfg = {"scenario": "poseidon-first-import-inside-region", "tree": common.TREE, "name": name, "mod": mod, "p": str(p),
                       "guard": guard, "use_inside": use_inside}
                jobs.append((cfg, _sp.Popen([common.PY, child, json.dumps(cfg)], stdout=_sp.PIPE, stderr=_sp.PIPE, text=True,
                                            env=dict(_os.environ, PYTHONHASHSEED="0"), start_new_session=True)))
    for cfg, pr in jobs:
        so, se = pr.communicate()
        rep = None
        for ln in so.splitlines():
            if ln.startswith("@@"):
                rep = json.loads(ln[2:])
        ctx.add("lazy_import_configurations")
        if rep is None:
            ctx.harness_errors.append("lazy-import child failed (%s guard %s): %s" % (cfg["name"], cfg["guard"], se[-300:]))
            continue
        bad = [d for d in rep["digests"] if not d["equal_reference"] or d["unsat"] or d["mism"]]
        if bad or not rep["state_clean"]:
            ctx.violation({"klass": "hash-wrong-after-import-inside-region", "field": cfg["name"], "guard": cfg["guard"]},
                          {"lazy": {k: v for k, v in cfg.items() if k != "tree"}},
                          "[%s] pysnark.poseidon_hash first imported inside a region with guard %d%s: afterwards, in live code, %s"
                          % (cfg["name"], cfg["guard"], " (and used there)" if cfg["use_inside"] else "",
                             "; ".join("poseidon_hash(%s) %s" % (d["msg"], "differs from the reference" if not d["equal_reference"] else "leaves unsatisfied constraints / value-wire mismatch") for d in bad[:3]) or "guard state not clean"))


def selection_points():
    """Every way of selecting each Poseidon-capable backend, and the ways that must NOT get a table."""
    pts = []
    full = (True, True, False)          # flatbuffers + qaptools available, no libsnark
    for name, (mod, _) in FIELDS.items():
        pts.append((name, (), full, True))                     # environment
        pts.append((c19.UNSET, (mod,), full, True))            # pre-import
        pts.append(("nobackend", (mod,), full, True))          # pre-import overrides a conflicting environment
        pts.append(("snarkjs", (mod,), full, True))
    pts.append((c19.UNSET, (), (True, False, False), True))    # auto-detection -> snarkjs (no table: must fail loudly)
    pts.append((c19.UNSET, ("pysnark.nobackend",), full, True))
    pts.append(("nobackend", (), full, True))
    pts.append(("bogus", (), (True, False, False), True))
    pts.append(("zkifbellman", ("pysnark.zkinterface.backendbulletproofs",), full, True))
    return pts


def judge_selection(res):
    env, pre, deps, _ = res["pt"]
    rep = res.get("report")
    if not rep or "backend_name" not in rep:
        return [({"klass": "selection-child-failed"}, "no report: %s" % res.get("stderr", "")[-200:])]
    name = rep["backend_name"]
    out = []
    if "poseidon_table" in rep:
        if rep["poseidon_table"] != name:
            out.append(({"klass": "parameter-table-of-another-backend", "selected": str(name), "table": rep["poseidon_table"]},
                        "backend %s is in use but Poseidon took the parameters registered for %s (R_P=%s)" % (name, rep["poseidon_table"], rep.get("poseidon_R_P"))))
    elif rep.get("poseidon_error") != "NotImplementedError":
        out.append(({"klass": "poseidon-import-fails-oddly", "selected": str(name)}, "importing poseidon_hash raised %s" % rep.get("poseidon_error")))
    elif name in FIELDS or name == "nobackend":
        out.append(({"klass": "no-parameters-for-supported-backend", "selected": str(name)}, "backend %s has a registered table but import failed" % name))
    return out


def run(ctx):
    level = 1 if ctx.thorough else 0
    agg = {}
    ncons_seen = {}
    traces_seen = {}
    for name, (mod, p) in FIELDS.items():
        tasks = [("perm", name, s) for s in states(p, level)] + [("perm", name, ("const", i)) for i in range(16)] + [("sponge", name, m) for m in messages(p, level)]
        tasks += [("padding", name, None), ("ggh", name, 10 if ctx.thorough else 8)]
        tasks += [("gghlong", name, (ln,)) for ln in ((255, 256, 257, 300, 513) + ((511, 512, 1025) if ctx.thorough else ()))]
        random.Random(ctx.seed).shuffle(tasks)
        results = common.pool_map(_task, tasks, init=_init, initargs=(name,))
        for r in results:
            common.merge_counts(agg, r["st"])
            for sig, text in r["viols"]:
                ctx.violation(sig, {"field": name}, text)
            if r.get("ncons") is not None:
                key = (name, r["kind"]) if r["kind"] == "perm" else (name, r["kind"], r["ncons"][0])
                ncons_seen.setdefault(key, set()).add(r["ncons"] if r["kind"] == "perm" else r["ncons"][1])
            if r.get("trace"):
                traces_seen.setdefault((name,) + tuple(r["trace"][0]), {}).setdefault(r["trace"][1], r["trace"][2])
    # the same gadgets on the REAL zkinterface backend modules (the recorder cannot see their arithmetic)
    for name, (mod, p) in FIELDS.items():
        st_ = states(p, 0)
        ms_ = messages(p, 0)
        tasks = [("perm", name, s) for s in (st_[:14] if not ctx.thorough else st_)]
        tasks += [("sponge", name, m) for m in (ms_[:14] + ms_[-8:] if not ctx.thorough else ms_)]
        tasks += [("ggh", name, 4 if not ctx.thorough else 6)]
        results = common.pool_map(_task, tasks, init=_init_real, initargs=(name,), force_fork=True)
        for r in results:
            ctx.add("real_backend_executions", r["st"]["executions"])
            common.merge_counts(agg, r["st"])
            for sig, text in r["viols"]:
                ctx.violation(sig, {"field": name, "real": True}, text)
    for key, tr in traces_seen.items():
        if len(tr) > 1:
            ex = list(tr.values())[:2]
            ctx.violation({"klass": "trace-depends-on-input-values", "field": key[0], "gadget": key[1]}, {"field": key[0]},
                          "%s: inputs %s and %s of the same shape emit different constraint systems (same count or not): the circuit depends on the values hashed"
                          % (key, ex[0], ex[1]))
    ctx.cov["trace_groups"] = len(traces_seen)
    for key, counts in ncons_seen.items():
        if len(counts) > 1:
            ctx.violation({"klass": "constraint-count-depends-on-input", "field": key[0]}, {"key": list(key)},
                          "%s: numbers of constraints %s for inputs of the same shape" % (key, sorted(counts)))
    lazy_import_children(ctx)
    sel = common.pool_map(c19.run_point, selection_points())
    for res in sel:
        ctx.add("selection_configurations")
        for sig, text in judge_selection(res):
            env, pre, deps, _ = res["pt"]
            ctx.violation(sig, {"pt": [env, list(pre), list(deps), True]}, "PYSNARK_BACKEND=%s pre-imported=%s: %s" % (env, list(pre), text))
    from .. import e1
    e1.dedupe_violations(ctx)
    ctx.cov.update(agg)
    ctx.cov["states"] = agg["compared"]
    ctx.cov["distinct_outcomes"] = agg["compared"]
    ctx.cov["traces_validated_against_impl"] = agg["compared"] + len(sel)
    ctx.cov["exhaustive"] = True
    ctx.cov["rule"] = ("per field (bn128, bls12-381, curve25519 order): permutation on all states over {0,1,2,p-1}^5 with <= 2 "
                       "non-zero entries (+ the published input), sponge on ALL messages of length 0..3 over {0,1,p-1} and "
                       "lengths 4,5,8,9(,12) over three bit patterns, boolean- and fixed-point-typed inputs; padding on ALL "
                       "messages of length <= 9 over {0,1} through the real padding code; subset-sum hash on all bit vectors of "
                       "length <= 8 (10 thorough) x plain / integer-typed / boolean-typed / mixed, and on inputs of 255..257, 300, 513 (thorough 511, 512, 1025) bits in three patterns; parameter selection in %d "
                       "fresh interpreters; a sub-family of the permutation / sponge / subset-sum instances again on the REAL "
                       "zkinterface backend modules of the three fields (FlatBuffers builder shim)" % len(sel))
    ctx.sample({"field": "zkifbellman", "permute": [0, 1, 2, 3, 4], "expect": "published x5_255_5 vector"})


class _Ctx:
    def __init__(self):
        self.cov, self.harness_errors, self.viols = {}, [], []

    def violation(self, sig, case, what):
        self.viols.append({"sig": sig, "what": what})

    def add(self, k, n=1):
        self.cov[k] = self.cov.get(k, 0) + n


def replay(case):
    if "lazy" in case:
        c = _Ctx()
        lazy_import_children(c)
        return {"scenario": "first import inside a region", "violations": c.viols, "harness_errors": c.harness_errors}
    if "pt" in case:
        env, pre, deps, pos = case["pt"]
        res = c19.run_point((env, tuple(pre), tuple(deps), pos))
        return {"point": case["pt"], "report": res.get("report"), "violations": [{"sig": s, "what": t} for s, t in judge_selection(res)]}
    name = case.get("field", "zkinterface")
    (_init_real if case.get("real") else _init)(name)
    r = _task(("perm", name, (0, 1, 2, 3, 4)))
    r2 = _task(("ggh", name, 4))
    if case.get("real"):
        r3 = _task(("sponge", name, ("int", (1, _ST["p"] - 1))))
        r["viols"] = r["viols"] + r3["viols"]
    return {"field": name, "violations": [{"sig": s, "what": t} for s, t in r["viols"] + r2["viols"]]}
