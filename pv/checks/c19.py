"""C19: the backend in use is the one the configuration names.

E6: one fresh interpreter per configuration  PYSNARK_BACKEND value x pre-imported backend modules
(singly, in pairs, both import orders) x availability of each optional dependency (FlatBuffers,
qaptools executables, libsnark extension); the child's report is compared with a reference
selection function written from the property statement."""
import itertools
import json
import os
import shutil
import subprocess
import tempfile

from .. import common
from .. import recorder as REC
from . import c11, c12

REGISTRY = [
    ("libsnark", "pysnark.libsnark.backend"), ("libsnarkgg", "pysnark.libsnark.backendgg"),
    ("qaptools", "pysnark.qaptools.backend"), ("snarkjs", "pysnark.snarkjsbackend"),
    ("zkinterface", "pysnark.zkinterface.backend"), ("zkifbellman", "pysnark.zkinterface.backendbellman"),
    ("zkifbulletproofs", "pysnark.zkinterface.backendbulletproofs"), ("nobackend", "pysnark.nobackend"),
]
NAME2MOD = dict(REGISTRY)
MOD2NAME = {m: n for n, m in REGISTRY}
MODULUS = {"libsnark": REC.BN128, "libsnarkgg": REC.BN128, "qaptools": REC.BN128, "snarkjs": REC.BN128,
           "zkinterface": REC.BN128, "zkifbellman": REC.BLS12_381, "zkifbulletproofs": REC.CURVE25519, "nobackend": 10000}
SINK = {"libsnark": "pysnark.libsnark.backend", "libsnarkgg": "pysnark.libsnark.backend", "qaptools": "pysnark.qaptools.backend",
        "snarkjs": "pysnark.snarkjsbackend", "zkinterface": "pysnark.zkinterface.backend",
        "zkifbellman": "pysnark.zkinterface.backend", "zkifbulletproofs": "pysnark.zkinterface.backend", "nobackend": None}
LIBSNARK_STUB = os.path.join(common.VERIF, "pv", "shims", "libsnark_stub")
CHILD = os.path.join(common.VERIF, "pv", "children", "select_child.py")
UNSET = "<unset>"


def loadable(name, deps):
    fb, qap, ls = deps
    if name in ("libsnark", "libsnarkgg"):
        return ls
    if name == "qaptools":
        return qap
    if name.startswith("zkif") or name == "zkinterface":
        return fb
    return True


def reference(env, pre, deps, ipython=False):
    """-> dict(kind='selected', names=[acceptable names]) | dict(kind='import-fails') ;
    plus 'unknown_message': bool."""
    pre_names = [MOD2NAME[m] for m in pre if loadable(MOD2NAME[m], deps)]
    if pre_names:
        # exactly: the first loaded module in the documented order; a derived backend (which loads its
        # base module too) counts at its own name
        base_of = {"libsnarkgg": "libsnark", "zkifbellman": "zkinterface", "zkifbulletproofs": "zkinterface"}
        closure = set(pre_names) | {base_of[n] for n in pre_names if n in base_of}
        first = [n for n, _ in REGISTRY if n in closure][0]
        derived = [n for n in pre_names if base_of.get(n) == first]
        return {"kind": "selected", "names": derived or [first], "unknown_message": False}
    known = dict(REGISTRY)
    if env != UNSET and env in known:
        if loadable(env, deps):
            return {"kind": "selected", "names": [env], "unknown_message": False}
        return {"kind": "import-fails", "unknown_message": False}
    auto = [n for n, _ in REGISTRY if loadable(n, deps)][0]
    if ipython:
        auto = "nobackend"      # interactive sessions default to the no-op backend instead of auto-detection
    return {"kind": "selected", "names": [auto], "unknown_message": env != UNSET}


def child_env(env, deps):
    fb, qap, ls = deps
    e = dict(os.environ, PYTHONHASHSEED="0")
    e.pop("PYSNARK_BACKEND", None)
    if env != UNSET:
        e["PYSNARK_BACKEND"] = env
    pp = [common.TREE]
    real_fb = False
    try:
        import flatbuffers  # noqa: F401
        real_fb = "shims" not in flatbuffers.__file__
    except ImportError:
        pass
    if fb and not real_fb:
        pp.append(c11.SHIM)
    if ls:
        pp.append(LIBSNARK_STUB)
    e["PYTHONPATH"] = os.pathsep.join(pp)
    if qap:
        e["QAPTOOLS_BIN"] = c12.STUBS
    else:
        e["QAPTOOLS_BIN"] = "/nonexistent-qaptools-dir"
    return e, real_fb


def run_point(pt):
    env, pre, deps, poseidon = pt[:4]
    ipy = len(pt) > 4 and pt[4]
    late = pt[5] if len(pt) > 5 else None
    d = tempfile.mkdtemp(prefix="pv-c19-")
    try:
        e, real_fb = child_env(env, deps)
        r = subprocess.run([common.PY, CHILD, json.dumps({"preimport": list(pre), "poseidon": poseidon, "ipython": ipy,
                                                          "late_env": ([late[0], None if late[1] == UNSET else late[1]] if late else None)})], cwd=d, env=e,
                           capture_output=True, text=True, start_new_session=True, timeout=120)
        rep = None
        for ln in r.stdout.splitlines():
            if ln.startswith("@@"):
                rep = json.loads(ln[2:])
        return {"pt": pt, "status": r.returncode, "report": rep, "stdout": r.stdout[-600:], "stderr": r.stderr[-400:],
                "real_fb": real_fb, "unknown_msg": "unknown backend" in r.stdout}
    except subprocess.TimeoutExpired:
        return {"pt": pt, "timeout": True}
    finally:
        shutil.rmtree(d, True)


def judge(res):
    env, pre, deps = res["pt"][:3]
    ipy = len(res["pt"]) > 4 and res["pt"][4]
    out = []
    if res.get("timeout"):
        return [({"klass": "child-timeout"}, "timeout")]
    if res.get("real_fb") and not deps[0]:
        return []       # a real flatbuffers is installed: the "unavailable" configuration cannot be produced
    late = res["pt"][5] if len(res["pt"]) > 5 else None
    if late:
        env = late[1]           # what the environment says when pysnark.runtime is imported
    ref = reference(env, pre, deps, ipy)
    rep = res["report"]
    base = {"env": "known" if env in NAME2MOD else ("unset" if env == UNSET else "unknown"),
            "pre": "+".join(MOD2NAME[m] for m in pre) or "none"}
    if late:
        base["late_env"] = True
    if ipy:
        base["interactive"] = True
    if rep is None:
        # the interpreter died while importing pysnark.runtime with an uncaught exception
        if ref["kind"] == "import-fails":
            return []
        return [(dict(base, klass="import-crashed"), "child produced no report: %s" % res["stderr"][-200:])]
    if "import_error" in rep:
        if ref["kind"] != "import-fails":
            out.append((dict(base, klass="import-fails-unexpectedly"), "importing pysnark.runtime failed: %s" % rep["import_error"]))
        return out
    if ref["kind"] == "import-fails":
        out.append((dict(base, klass="unloadable-named-backend-not-reported"),
                    "PYSNARK_BACKEND=%s cannot be loaded but the run continued with %s" % (env, rep["backend_name"])))
        return out
    name = rep["backend_name"]
    if name not in ref["names"]:
        out.append((dict(base, klass="wrong-backend-selected", got=str(name)), "selected %r, expected one of %s" % (name, ref["names"])))
    if name in NAME2MOD:
        if rep["module"] != NAME2MOD[name]:
            out.append((dict(base, klass="name-does-not-identify-module", got=str(name)),
                        "backend_name %r but the module in effect is %s" % (name, rep["module"])))
        # the field in effect must be the one the name stands for (derived backends change the field)
        eff_mod = rep["module"]
        if rep["modulus"] != str(MODULUS[name]):
            out.append((dict(base, klass="name-does-not-identify-field", got=str(name)),
                        "backend_name %r but get_modulus() = %s" % (name, rep["modulus"][:30])))
        if SINK[name] is not None and SINK[name] not in rep.get("sink", []) and "probe_error" not in rep:
            out.append((dict(base, klass="constraints-go-elsewhere", got=str(name)),
                        "a probe constraint was not received by %s (sinks: %s)" % (SINK[name], rep.get("sink"))))
    if name in ("libsnark", "libsnarkgg") and "libsnark_base_use_groth" in rep and rep["libsnark_base_use_groth"] != (name == "libsnarkgg"):
        out.append((dict(base, klass="name-does-not-identify-proof-system", got=str(name)),
                    "backend_name %r but the flag read by the proving / key / verification functions (pysnark.libsnark.backend.use_groth) is %s"
                    % (name, rep["libsnark_base_use_groth"])))
    if rep["missing"]:
        out.append((dict(base, klass="incomplete-backend-interface", got=str(name)), "selected backend lacks %s" % rep["missing"]))
    unknown_msg = res["unknown_msg"]
    if ref["unknown_message"] and not unknown_msg:
        out.append((dict(base, klass="unknown-name-not-reported"), "PYSNARK_BACKEND=%r is not a known backend but nothing was reported" % env))
    if unknown_msg and not ref["unknown_message"]:
        out.append((dict(base, klass="spurious-unknown-name-message"), "message about an unknown backend although %r %s" % (env, "is known" if env in NAME2MOD else "was overridden")))
    return out


def points(thorough):
    # unknown names include near misses of known ones (substring, prefix, case, surrounding blanks)
    envs = [UNSET] + [n for n, _ in REGISTRY] + ["bogus", "", "js", "no", "zkif", "SNARKJS", " snarkjs", "libsnark ", "backend"]
    mods = [m for _, m in REGISTRY]
    pres = [()] + [(m,) for m in mods]
    pairs = [("pysnark.nobackend", "pysnark.snarkjsbackend"), ("pysnark.snarkjsbackend", "pysnark.zkinterface.backend"),
             ("pysnark.zkinterface.backendbellman", "pysnark.snarkjsbackend"), ("pysnark.qaptools.backend", "pysnark.nobackend"),
             ("pysnark.qaptools.backend", "pysnark.zkinterface.backendbulletproofs"), ("pysnark.libsnark.backendgg", "pysnark.zkinterface.backendbellman"),
             # (not a configuration: both derived zkinterface modules at once - they set the ONE modulus of their
             #  shared base module, so no single "module in effect" exists)
             ("pysnark.libsnark.backendgg", "pysnark.snarkjsbackend"),
             ("pysnark.nobackend", "pysnark.zkinterface.backendbulletproofs"), ("pysnark.libsnark.backend", "pysnark.zkinterface.backend")]
    for a, b in pairs:
        pres += [(a, b), (b, a)]
    depss = list(itertools.product((True, False), repeat=3))
    pts = []
    for env in envs:
        for pre in pres:
            for deps in depss:
                if not thorough and len(pre) == 2 and sum(1 for x in deps if not x) > 1:
                    continue        # quick: pairs of pre-imports with at most one missing dependency
                if env in ("js", "no", "zkif", "SNARKJS", " snarkjs", "libsnark ", "backend") and (pre or (not thorough and sum(1 for x in deps if not x) > 1)):
                    continue        # near-miss names matter when nothing is pre-imported
                pts.append((env, pre, deps, False))
    # interactive sessions (builtin get_ipython present)
    for env in [UNSET] + [n for n, _ in REGISTRY] + ["bogus"]:
        for pre in [()] + [(m,) for m in mods]:
            for deps in ((True, True, True), (False, True, False)):
                pts.append((env, pre, deps, False, True))
    # PYSNARK_BACKEND set / changed / removed by the program itself AFTER a helper module of the package was imported
    # and before pysnark.runtime is: the value at the time of the runtime import counts
    for first in (UNSET, "snarkjs", "bogus"):
        for helper in ("pysnark.gmpy", "pysnark"):
            for value in ("nobackend", "zkinterface", "snarkjs", UNSET, "bogus2"):
                if value != first:
                    pts.append((first, (), (True, True, False), False, False, (helper, value)))
    return pts


def run(ctx):
    pts = points(ctx.thorough)
    results = common.pool_map(run_point, pts)
    outcomes = set()
    for res in results:
        ctx.add("executions")
        ctx.add("transitions", 1 + len(res["pt"][1]))
        rep = res.get("report") or {}
        outcomes.add((rep.get("backend_name"), rep.get("module"), res.get("status")))
        for sig, text in judge(res):
            env, pre, deps = res["pt"][:3]
            late = res["pt"][5] if len(res["pt"]) > 5 else None
            ctx.violation(sig, {"pt": [env, list(pre), list(deps), False] + [list(x) if isinstance(x, tuple) else x for x in res["pt"][4:]]},
                          "PYSNARK_BACKEND=%s%s pre-imported=%s flatbuffers=%s qaptools=%s libsnark=%s: %s"
                          % (env, (" then set to %s by the program after importing %s" % (late[1], late[0])) if late else "", list(pre), deps[0], deps[1], deps[2], text))
    from .. import e1
    e1.dedupe_violations(ctx)
    ctx.cov["states"] = len(outcomes)
    ctx.cov["distinct_outcomes"] = len(outcomes)
    ctx.cov["traces_validated_against_impl"] = len(results)
    ctx.cov["exhaustive"] = True
    ctx.cov["rule"] = ("configuration = PYSNARK_BACKEND in {unset, 8 registry names, 'bogus', '', and 7 near misses of known names (substring, case, blanks)} x pre-imported modules in "
                       "{none, each registry module, 9 pairs (same and different packages, base and derived modules) in both import orders} x {FlatBuffers, qaptools executables, libsnark "
                       "extension} each available or not, plus the same with the builtin get_ipython present (interactive session); one fresh interpreter each; states = "
                       "distinct (backend_name, module, exit status)")
    ctx.assumptions += ["libsnark is represented by a stub extension module (only its loadability matters here)",
                        "FlatBuffers availability is modelled by putting the builder shim on PYTHONPATH or not"]
    ctx.sample({"PYSNARK_BACKEND": "zkifbellman", "preimport": [], "deps": "all", "expected": "zkifbellman / bls12-381"})


def replay(case):
    env, pre, deps, pos = case["pt"][:4]
    res = run_point((env, tuple(pre), tuple(deps), pos) + tuple(tuple(x) if isinstance(x, list) else x for x in case["pt"][4:]))
    return {"point": case["pt"], "report": res.get("report"), "stdout": res.get("stdout"),
            "violations": [{"sig": s, "what": t} for s, t in judge(res)]}
