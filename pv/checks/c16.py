"""C16: bit decomposition and packing round-trip at the requested width.

(1) to_bits(w) / from_bits round trip, assert_positive(w), check_positive(w) for every width 1..6
independent of the global bitlength (3, 4, 6) on every value of [-2, 2^w+1]; with all witness choices
enumerated (exact engine) the width actually enforced must be the one requested.
(2) Packing: every schema of the grammar Bool | IntMod(1..5) | List(0..2 items) | Repeat(s, 0..2) up to
depth 2 x ALL values of the schema x {plain, secret}: unpack(pack(v)) == v, bitlen() == number of bits,
out-of-range plain values are rejected."""
import itertools
import random

from .. import common
from .. import e2
from .. import harness as H
from .. import recorder as REC
from .. import witness as W


# ------------------------------------------------------------------------------------------------ widths

def width_task(t):
    n, p = t
    st = {"executions": 0, "transitions": 0, "e2_instances": 0, "nodes": 0, "undecided": 0}
    viols = {}
    rt = None

    def report(klass, w, v, text):
        rel = "w<n" if w < n else ("w=n" if w == n else "w>n")
        sig = {"klass": klass, "rel": rel}
        k = common.sig_hash(sig)
        if k not in viols:
            viols[k] = {"sig": sig, "count": 0, "what": "width %d, global bitlength %d, value %d: %s" % (w, n, v, text),
                        "case": {"kind": "width", "n": n, "p": p}}
        viols[k]["count"] += 1

    for w in range(0, 7):
        for v in range(-2, 2 ** w + 2):
            inr = 0 <= v < 2 ** w
            # ---- value level
            H.R.p = p
            H.reset(bitlength=n)
            rt = H.rt
            x = rt.PrivVal(v)
            st["executions"] += 1
            try:
                bits = x.to_bits(w)
                back = rt.LinComb.from_bits(bits)
                st["transitions"] += 2
                if not inr:
                    report("to_bits-accepts-out-of-range", w, v, "to_bits(%d) accepted the value" % w)
                elif len(bits) != w or H.plain(back) != v or [H.plain(b) for b in bits] != [(v >> i) & 1 for i in range(w)]:
                    report("round-trip-wrong", w, v, "bits %s recompose to %s" % ([H.plain(b) for b in bits], H.plain(back)))
                if H.R.unsatisfied():
                    report("unsat", w, v, "to_bits constraints not satisfied")
            except AssertionError:
                if inr:
                    report("to_bits-rejects-in-range", w, v, "to_bits(%d) raised" % w)
            # the same call inside a taken branch (one / two true guards) accepts and returns exactly the same
            for depth in (1, 2):
                H.reset(bitlength=n)
                x = rt.PrivVal(v)
                gs = [H.boolean.PrivValBool(1) for _ in range(depth)]
                baks = [rt.add_guard(g) for g in gs]
                st["executions"] += 1
                try:
                    try:
                        bits = x.to_bits(w)
                        accepted = True
                    except AssertionError:
                        accepted = False
                finally:
                    for b in reversed(baks):
                        rt.restore_guard(b)
                if accepted and not inr:
                    report("to_bits-accepts-out-of-range-in-taken-branch", w, v, "to_bits(%d) inside %d taken branch(es) accepted the value" % (w, depth))
                elif not accepted and inr:
                    report("to_bits-rejects-in-range-in-taken-branch", w, v, "to_bits(%d) inside %d taken branch(es) raised" % (w, depth))
                elif accepted and [H.plain(b) for b in bits] != [(v >> i) & 1 for i in range(w)]:
                    report("round-trip-wrong-in-taken-branch", w, v, "bits %s" % [H.plain(b) for b in bits])
                if accepted and H.R.unsatisfied():
                    report("unsat", w, v, "to_bits constraints emitted inside a taken branch are not satisfied")
            # history: the same object was decomposed before at another width (wider, narrower, the global one)
            for first in (w + 2, max(w - 1, 0), None):
                H.reset(bitlength=n)
                x = rt.PrivVal(v)
                st["executions"] += 1
                try:
                    x.to_bits(first) if first is not None else x.to_bits()
                except AssertionError:
                    pass
                try:
                    bits = x.to_bits(w)
                    ok2 = len(bits) == w and [H.plain(b) for b in bits] == [(v >> i) & 1 for i in range(w)]
                    if not inr:
                        report("to_bits-accepts-out-of-range-after-earlier-decomposition", w, v,
                               "to_bits(%d) accepted the value after an earlier to_bits(%s) on the same object" % (w, first))
                    elif not ok2:
                        report("round-trip-wrong-after-earlier-decomposition", w, v, "bits %s after an earlier to_bits(%s)" % ([H.plain(b) for b in bits], first))
                    if H.R.unsatisfied():
                        report("unsat", w, v, "constraints not satisfied after two decompositions")
                except AssertionError:
                    if inr:
                        report("to_bits-rejects-in-range-after-earlier-decomposition", w, v, "to_bits(%d) raised after an earlier to_bits(%s)" % (w, first))
            for meth in ("assert_positive",):
                H.reset(bitlength=n)
                x = rt.PrivVal(v)
                st["executions"] += 1
                try:
                    getattr(x, meth)(w)
                    if not inr:
                        report("assert_positive-accepts-out-of-range", w, v, "accepted")
                    if H.R.unsatisfied():
                        report("unsat", w, v, "assert_positive constraints not satisfied")
                except AssertionError:
                    if inr:
                        report("assert_positive-rejects-in-range", w, v, "raised")
            H.reset(bitlength=n)
            x = rt.PrivVal(v)
            st["executions"] += 1
            try:
                r = x.check_positive(w)
                if v.bit_length() > w:
                    report("check_positive-accepts-too-wide", w, v, "returned %s for a value wider than %d bits" % (H.plain(r), w))
                elif H.plain(r) != int(v >= 0):
                    report("check_positive-wrong", w, v, "returned %s" % H.plain(r))
                if H.R.unsatisfied():
                    report("unsat", w, v, "check_positive constraints not satisfied")
            except ValueError:
                if v.bit_length() <= w:
                    report("check_positive-rejects-in-range", w, v, "raised")
            # ---- enforced width: all witness choices, error checking off
            for meth in ("to_bits", "assert_positive", "check_positive"):
                H.R.want_sites = True
                H.reset(bitlength=n)
                x = rt.PrivVal(v)
                rt.ignore_errors(True)
                try:
                    res = getattr(x, meth)(w)
                except Exception as ex:  # noqa: BLE001
                    rt._ignore_errors = False
                    report("raises-with-errors-ignored", w, v, "%s(%d) raised %s" % (meth, w, type(ex).__name__))
                    continue
                rt._ignore_errors = False
                H.R.want_sites = False
                st["e2_instances"] += 1
                try:
                    sols, undec, s = W.exact(H.R.cons, len(H.R.vars), {1: v % p}, p)
                except W.Capped:
                    st["undecided"] += 1
                    continue
                st["nodes"] += s["nodes"]
                if undec:
                    st["undecided"] += 1
                    continue
                if meth == "check_positive":
                    # result forced: 1 for 0 <= v < 2^w, 0 for -2^w <= v < 0, nothing provable beyond
                    wire = dict(res.lc.lc.lc)
                    red = W.reduce_system(H.R.cons, p)
                    asg0 = {i + 1: vv[1] % p for i, vv in enumerate(H.R.vars)}
                    outs = set()
                    for sol in sols:
                        aw = W.affine_wire(wire, sol, red, p)
                        outs.add("FREE" if (aw is None or aw[1]) else aw[0])
                    want = {1} if 0 <= v < 2 ** w else ({0} if -(2 ** w) <= v < 0 else set())
                    if outs != want:
                        report("check_positive-width-not-enforced", w, v, "provable results %s, expected %s" % (sorted(map(str, outs)), sorted(want)))
                else:
                    if bool(sols) != inr:
                        report("%s-width-not-enforced" % meth, w, v, "system %s although the value %s a %d-bit non-negative integer"
                               % ("satisfiable" if sols else "unsatisfiable", "is" if inr else "is not", w))
    return {"st": st, "viols": viols, "states": 0}


# ------------------------------------------------------------------------------------------------ wide widths

WIDE = (8, 15, 16, 17, 18, 24, 31, 32, 33, 64, 100, 253)


def wide_values(w):
    vs = {0, 1, 2, 2 ** w - 1, 2 ** w - 2, 2 ** w, 2 ** w + 1, -1, -2 ** w}
    for k in (7, 8, 15, 16, 17, 31, 32, 63, 64):
        if k < w:
            vs |= {2 ** k - 1, 2 ** k, 2 ** k + 1, 2 ** w - 2 ** k, 2 ** (w - 1) + 2 ** k}
    if w > 1:
        vs |= {2 ** (w - 1), 2 ** (w - 1) - 1, sum(1 << i for i in range(0, w, 2)), sum(1 << i for i in range(1, w, 2))}
    from .. import opseq as _E
    vs |= {v % (2 ** w) for v in _E.nibble_patterns(w + 1)}        # every hexadecimal digit value occurs
    return sorted(vs)


def wide_task(t):
    """Value level only (the witness-space engine is not run on these): explicit widths and global
    bitlengths beyond every small table size, boundary lattice of values including one-bit-set values."""
    n, p = t
    st = {"executions": 0, "transitions": 0, "e2_instances": 0, "nodes": 0, "undecided": 0}
    viols = {}

    def report(klass, w, v, text):
        sig = {"klass": klass, "rel": "wide"}
        k = common.sig_hash(sig)
        if k not in viols:
            viols[k] = {"sig": sig, "count": 0, "what": "width %d, global bitlength %d, value %d: %s" % (w, n, v, text),
                        "case": {"kind": "wide", "n": n, "p": p}}
        viols[k]["count"] += 1

    for w in WIDE + (None,):
        ww = n if w is None else w
        if 2 ** (ww + 1) >= p:
            continue
        for v in wide_values(ww):
            inr = 0 <= v < 2 ** ww
            H.R.p = p
            H.reset(bitlength=n)
            rt = H.rt
            for form in ("to_bits", "assert_positive", "pack"):
                H.reset(bitlength=n)
                x = rt.PrivVal(v)
                st["executions"] += 1
                try:
                    if form == "to_bits":
                        bits = x.to_bits() if w is None else x.to_bits(w)
                        back = rt.LinComb.from_bits(bits)
                        ok = len(bits) == ww and H.plain(back) == v and [H.plain(b) for b in bits] == [(v >> i) & 1 for i in range(ww)]
                        if H.value_wire_mismatches(back):
                            report("recomposition-value!=wire", ww, v, "from_bits value %s differs from its wire" % H.plain(back))
                    elif form == "assert_positive":
                        x.assert_positive() if w is None else x.assert_positive(w)
                        ok = True
                    else:
                        from pysnark.pack import PackIntMod
                        if ww > n or ww < 2:
                            continue
                        m = 2 ** ww - 1
                        pk = PackIntMod(m)
                        bits = pk.pack(x)
                        back = pk.unpack(bits, 0)
                        ok = H.plain(back) == v and len(bits) == ww
                        if v == m:
                            raise AssertionError("harness: PackIntMod accepted the modulus itself")
                    st["transitions"] += 2
                    if not inr:
                        report("%s-accepts-out-of-range" % form, ww, v, "accepted")
                    elif not ok:
                        report("round-trip-wrong", ww, v, "bits recompose to %s" % H.plain(back))
                    if H.R.unsatisfied():
                        report("unsat", ww, v, "%s constraints not satisfied" % form)
                except AssertionError as ex:
                    if str(ex).startswith("harness"):
                        report("packintmod-accepts-the-modulus", ww, v, "PackIntMod(2^%d-1) unpacked the value 2^%d-1" % (ww, ww))
                    elif inr and not (form == "pack" and v >= 2 ** ww - 1):
                        report("%s-rejects-in-range" % form, ww, v, "raised")
                except Exception as ex:  # noqa: BLE001
                    report("%s-raises-other" % form, ww, v, "raised %s: %s" % (type(ex).__name__, str(ex)[:80]))
            # enforced width at this size too: all witness choices, error checking off
            for meth in ("to_bits", "assert_positive"):
                H.reset(bitlength=n)
                x = rt.PrivVal(v)
                rt.ignore_errors(True)
                try:
                    getattr(x, meth)() if w is None else getattr(x, meth)(w)
                except Exception as ex:  # noqa: BLE001
                    rt._ignore_errors = False
                    report("raises-with-errors-ignored", ww, v, "%s raised %s" % (meth, type(ex).__name__))
                    continue
                rt._ignore_errors = False
                st["e2_instances"] += 1
                try:
                    sols, undec, s_ = W.exact(H.R.cons, len(H.R.vars), {1: v % p}, p)
                except W.Capped:
                    st["undecided"] += 1
                    continue
                st["nodes"] += s_["nodes"]
                if undec:
                    st["undecided"] += 1
                elif bool(sols) != inr:
                    report("%s-width-not-enforced" % meth, ww, v, "system %s although the value %s a %d-bit non-negative integer"
                           % ("satisfiable" if sols else "unsatisfiable", "is" if inr else "is not", ww))
    return {"st": st, "viols": viols, "states": 0}


# ------------------------------------------------------------------------------------------------ plain rejection

def reject_task(t):
    """Out-of-range PLAIN values must be rejected wherever they sit: an IntMod leaf inside Repeat / List schemas, for
    structured moduli (8-bit wide 129..255, 256, 257, 1000, 2^16-1 ...), each illegal leaf value in every position."""
    _, p = t
    import pysnark.pack as P
    st = {"executions": 0, "transitions": 0, "e2_instances": 0, "nodes": 0, "undecided": 0}
    viols = {}

    def report(klass, desc, v, text):
        sig = {"klass": klass, "mode": "plain-nested"}
        k = common.sig_hash(sig)
        if k not in viols:
            viols[k] = {"sig": sig, "count": 0, "what": "schema %s, value %r: %s" % (desc, v, text), "case": {"kind": "reject", "p": p}}
        viols[k]["count"] += 1

    H.R.p = p
    for m in (3, 5, 129, 200, 255, 256, 257, 1000, 65535, 65536):
        bad_leaves = sorted({m, m + 1, -1, (1 << (m - 1).bit_length()) - 1, 1 << (m - 1).bit_length()} - set(range(m)))
        for shape, mk, good in (("Repeat(IntMod(%d), 3)" % m, lambda: P.PackRepeat(P.PackIntMod(m), 3), [1, m - 1, 0]),
                                ("List[Bool, IntMod(%d), IntMod(%d)]" % (m, m), lambda: P.PackList([P.PackBool(), P.PackIntMod(m), P.PackIntMod(m)]), [1, 0, m - 1]),
                                ("Repeat(List[IntMod(%d), Bool], 2)" % m, lambda: P.PackRepeat(P.PackList([P.PackIntMod(m), P.PackBool()]), 2), [[m - 1, 1], [0, 0]]),
                                ("Repeat(IntMod(%d), 40)" % m, lambda: P.PackRepeat(P.PackIntMod(m), 40), [i % m for i in range(40)])):
            H.reset(bitlength=24)
            st["executions"] += 1
            try:
                pk = mk()
                if H.plain(pk.unpack(pk.pack(good), 0)) != good:
                    report("round-trip-wrong", shape, good, "plain round trip differs")
            except Exception as ex:  # noqa: BLE001
                report("round-trip-raises", shape, good, "%s: %s" % (type(ex).__name__, str(ex)[:80]))
                continue
            # replace each IntMod leaf by each illegal value
            def leaves(v, path=()):
                for i, x in enumerate(v):
                    if isinstance(x, list):
                        yield from leaves(x, path + (i,))
                    else:
                        yield path + (i,)
            for path in leaves(good):
                if shape.startswith("List[Bool") and path == (0,):
                    continue
                if shape.startswith("Repeat(List") and path[-1] == 1:
                    continue
                if len(good) == 40 and path[0] not in (0, 17, 39):
                    continue
                for b in bad_leaves:
                    import copy
                    v = copy.deepcopy(good)
                    tgt = v
                    for i in path[:-1]:
                        tgt = tgt[i]
                    tgt[path[-1]] = b
                    for mode in ("checked", "ignore_errors", "false-guard"):
                        if mode != "checked" and (len(good) == 40 or m not in (3, 200, 256, 1000)):
                            continue
                        st["executions"] += 1
                        H.reset(bitlength=24)
                        try:
                            if mode == "ignore_errors":
                                H.rt.ignore_errors(True)
                                try:
                                    mk().pack(v)
                                finally:
                                    H.rt._ignore_errors = False
                            elif mode == "false-guard":
                                H.rt.guarded(H.boolean.PrivValBool(0))(lambda: mk().pack(v))()
                            else:
                                mk().pack(v)
                            report("out-of-range-plain-value-accepted", shape, v if len(v) < 8 else "%s at position %s" % (b, path),
                                   "pack accepted the leaf value %d (modulus %d)%s" % (b, m, "" if mode == "checked" else " (%s: a plain value is known when tracing, its rejection does not depend on the mode)" % mode))
                        except ValueError:
                            pass
                        except Exception as ex:  # noqa: BLE001
                            report("out-of-range-plain-value-wrong-exception", shape, b, type(ex).__name__)
    return {"st": st, "viols": viols, "states": 0}


# ------------------------------------------------------------------------------------------------ packing

def sdesc(s):
    if s[0] == "Bool":
        return "Bool"
    if s[0] == "IntMod":
        return "IntMod(%d)" % s[1]
    if s[0] == "List":
        return "List[%s]" % ", ".join(sdesc(x) for x in s[1])
    return "Repeat(%s, %d)" % (sdesc(s[1]), s[2])


def sbuild(s, P):
    if s[0] == "Bool":
        return P.PackBool()
    if s[0] == "IntMod":
        return P.PackIntMod(s[1])
    if s[0] == "List":
        return P.PackList([sbuild(x, P) for x in s[1]])
    return P.PackRepeat(sbuild(s[1], P), s[2])


def svalues(s):
    if s[0] == "Bool":
        return [0, 1]
    if s[0] == "IntMod":
        return list(range(s[1]))
    if s[0] == "List":
        return [list(x) for x in itertools.product(*[svalues(x) for x in s[1]])]
    return [list(x) for x in itertools.product(svalues(s[1]), repeat=s[2])]


def sextremes(s):
    """A few values of a LARGE schema (its value set cannot be enumerated): minimum, maximum, a mixed one."""
    if s[0] == "Bool":
        return [0, 1, 1]
    if s[0] == "IntMod":
        return [0, s[1] - 1, s[1] // 2 + 1 if s[1] > 2 else 0]
    if s[0] == "List":
        ex = [sextremes(x) for x in s[1]]
        return [[e[k] for e in ex] for k in range(3)] + [[e[(i + 1) % 2] for i, e in enumerate(ex)]]
    ex = sextremes(s[1])
    return [[ex[k]] * s[2] for k in range(3)] + [[ex[i % 2] for i in range(s[2])], [ex[0]] * (s[2] - 1) + [ex[1]] if s[2] else []]


def big_schemas(level):
    """Schemas beyond the small enumerated ones: long repetitions and lists, wide moduli."""
    B, I = ("Bool",), lambda m: ("IntMod", m)
    out = [("Repeat", B, k) for k in (16, 17, 33, 65)] + [("Repeat", I(5), 33), ("Repeat", I(6), 17),
           ("List", tuple([B, I(5), I(3)] * 6)), ("List", tuple(I(m) for m in range(2, 19))),
           I(2 ** 17 + 1), I(2 ** 16), I(2 ** 33 - 1), I(2 ** 64 + 1), ("Repeat", I(2 ** 20 + 7), 9),
           ("Repeat", ("List", (B, I(9))), 33), ("List", (("Repeat", B, 40), I(2 ** 40 + 1), ("Repeat", I(3), 33)))]
    if level >= 1:
        out += [("Repeat", B, k) for k in (129, 257, 1025)] + [I(2 ** 128 + 1), I(2 ** 200 - 1), ("Repeat", I(2 ** 64 + 1), 65)]
    return out


def nvalues(s):
    if s[0] == "Bool":
        return 2
    if s[0] == "IntMod":
        return s[1]
    if s[0] == "List":
        n = 1
        for x in s[1]:
            n *= nvalues(x)
        return n
    return nvalues(s[1]) ** s[2]


def schemas(depth):
    """Schema specs (picklable nested tuples), every one with at most 64 values."""
    base = [("Bool",)] + [("IntMod", m) for m in range(1, 6)]
    cur = list(base)
    allv = list(base)
    for d in range(depth):
        nxt = []
        inner = cur if d == 0 else base + cur[:10]
        for k in range(0, 3):
            for combo in itertools.product(inner, repeat=k):
                sp = ("List", tuple(combo))
                if nvalues(sp) <= 64:
                    nxt.append(sp)
        for x in inner:
            for times in range(0, 3):
                sp = ("Repeat", x, times)
                if nvalues(sp) <= 64:
                    nxt.append(sp)
        allv += nxt
        cur = nxt
    seen, out = set(), []
    for sp in allv:
        if sdesc(sp) not in seen:
            seen.add(sdesc(sp))
            out.append(sp)
    return out


def degenerate(desc):
    return "IntMod(1)" in desc or "List[]" in desc or ", 0)" in desc


def to_secret(v, spec, typed):
    """Secret version of a schema value; with typed=True boolean leaves are boolean-typed secrets."""
    rt, B = H.rt, H.boolean
    if spec[0] == "List":
        return [to_secret(x, sp, typed) for x, sp in zip(v, spec[1])]
    if spec[0] == "Repeat":
        return [to_secret(x, spec[1], typed) for x in v]
    if spec[0] == "Bool" and typed:
        return B.PrivValBool(v)
    return rt.PrivVal(v)


def pack_task(t):
    chunk, p = t
    import pysnark.pack as P
    st = {"executions": 0, "transitions": 0, "schemas": 0}
    viols = {}
    states = set()

    def report(klass, desc, v, mode, text):
        sig = {"klass": klass, "mode": mode, "degenerate": degenerate(desc)}
        k = common.sig_hash(sig)
        if k not in viols:
            viols[k] = {"sig": sig, "count": 0, "what": "schema %s, value %r (%s): %s" % (desc, v, mode, text),
                        "case": {"kind": "pack", "desc": desc, "value": v if len(repr(v)) < 300 else repr(v)[:300], "mode": mode, "p": p}}
        viols[k]["count"] += 1

    for spec in chunk:
        big = spec[0] == "BIG"
        if big:
            spec = spec[1]
        desc, vals = sdesc(spec), (sextremes(spec) if big else svalues(spec))
        if big and len(desc) > 60:
            desc = desc[:40] + "...(%d chars)" % len(desc)
        mk = lambda P_, spec=spec: sbuild(spec, P_)
        st["schemas"] += 1
        for v in vals:
            for mode in ("plain", "secret", "secret-typed-bool"):
                H.R.p = p
                H.reset(bitlength=230 if big else 8)
                st["executions"] += 1
                try:
                    pk = mk(P)
                    inp = v if mode == "plain" else to_secret(v, spec, mode == "secret-typed-bool")
                    bits = pk.pack(inp)
                    bl = pk.bitlen()
                    out = pk.unpack(bits, 0)
                    st["transitions"] += 3
                except Exception as ex:  # noqa: BLE001
                    report("round-trip-raises", desc, v, mode, "%s: %s" % (type(ex).__name__, str(ex)[:80]))
                    continue
                got = H.plain(out)
                states.add((desc, repr(got)))
                if got != v:
                    report("round-trip-wrong", desc, v, mode, "unpack(pack(v)) = %r" % (got,))
                if len(bits) != bl:
                    report("bitlen-wrong", desc, v, mode, "bitlen() = %d but pack produced %d bits" % (bl, len(bits)))
                if H.R.unsatisfied():
                    report("unsat", desc, v, mode, "constraints not satisfied")
                if mode != "plain" and H.value_wire_mismatches(out):
                    report("value!=wire", desc, v, mode, "unpacked value differs from its wire")
        # a field whose bits are partly secret and partly plain (hand-built bit strings): as soon as one bit is
        # secret the range check applies - all kind patterns x all bit values
        if spec[0] == "IntMod" and not big and 2 <= spec[1] <= 7:
            m = spec[1]
            bl_ = (m - 1).bit_length()
            for kindpat in itertools.product((0, 1), repeat=bl_):
                if not any(kindpat) or all(kindpat):
                    continue
                for val in range(2 ** bl_):
                    for typed in (False, True):
                        H.R.p = p
                        H.reset(bitlength=8)
                        st["executions"] += 1
                        bl = [((H.boolean.PrivValBool if typed else H.rt.PrivVal)((val >> i) & 1) if kindpat[i] else (val >> i) & 1) for i in range(bl_)]
                        try:
                            out = mk(P).unpack(bl, 0)
                            got = H.plain(out)
                            if val >= m:
                                report("mixed-bits-out-of-range-accepted", desc, val, "mixed", "bits %s (1 = secret position pattern %s) encode %d >= %d and were unpacked to %r"
                                       % ([(val >> i) & 1 for i in range(bl_)], list(kindpat), val, m, got))
                            elif got != val:
                                report("round-trip-wrong", desc, val, "mixed", "unpacked %r" % (got,))
                            if H.R.unsatisfied():
                                report("unsat", desc, val, "mixed", "constraints not satisfied")
                        except AssertionError:
                            if val < m:
                                report("round-trip-raises", desc, val, "mixed", "in-range mixed bits rejected")
                        except Exception as ex:  # noqa: BLE001
                            report("round-trip-raises", desc, val, "mixed", "%s: %s" % (type(ex).__name__, str(ex)[:80]))
        # out-of-range plain values are rejected (IntMod components)
        if spec[0] == "IntMod":
            m = spec[1]
            for bad in (-1, m, m + 1):
                st["executions"] += 1
                try:
                    mk(P).pack(bad)
                    report("out-of-range-plain-value-accepted", desc, bad, "plain", "pack accepted it")
                except ValueError:
                    pass
                except Exception as ex:  # noqa: BLE001
                    report("out-of-range-plain-value-wrong-exception", desc, bad, "plain", type(ex).__name__)
    return {"st": st, "viols": viols, "states": len(states)}


def _init():
    H.bind(REC.BN128)


def _dispatch(t):
    return width_task(t[1:]) if t[0] == "w" else wide_task(t[1:]) if t[0] == "W" else reject_task(t[1:]) if t[0] == "R" else pack_task(t[1:])


def run(ctx):
    from .. import xfeat
    xfeat.sweep(ctx, "C16")      # cross-feature compositions (pv/xfeat.py)
    xfeat.decl_sweep(ctx, "C16")
    p = [REC.BN128, REC.BLS12_381, REC.CURVE25519][ctx.seed % 3]
    tasks = [("w", n, p) for n in (3, 4, 6)]
    tasks += [("W", n, p) for n in (16, 20, 40)]
    sch = schemas(2)
    if ctx.thorough:
        tasks += [("W", n, q) for n in (16, 17, 33, 64, 128) for q in (REC.BN128, REC.BLS12_381, REC.CURVE25519)]
        tasks += [("w", n, q) for n in (3, 5) for q in (REC.BLS12_381, REC.CURVE25519)]
    random.Random(ctx.seed).shuffle(sch)
    tasks.append(("p", [("BIG", b) for b in big_schemas(1 if ctx.thorough else 0)], p))
    tasks.append(("R", None, p))
    nchunk = common.NCPU * 2
    for i in range(nchunk):
        c = sch[i::nchunk]
        if c:
            tasks.append(("p", c, p))
    results = common.pool_map(_dispatch, tasks, init=_init)
    agg = {}
    nstates = 0
    for r in results:
        common.merge_counts(agg, r["st"])
        nstates += r["states"]
        for v in r["viols"].values():
            ctx.violations.append({"sig": v["sig"], "case": v["case"], "what": v["what"] + " (x%d)" % v["count"]})
    from .. import e1
    e1.dedupe_violations(ctx)
    ctx.cov.update(agg)
    ctx.cov["schemas_total"] = len(sch)
    ctx.cov["states"] = nstates + agg.get("nodes", 0)
    ctx.cov["distinct_outcomes"] = nstates
    ctx.cov["traces_validated_against_impl"] = agg["executions"]
    ctx.cov["exhaustive"] = agg.get("undecided", 0) == 0
    ctx.cov["rule"] = ("widths 1..6 x global bitlength 3/4/6 x every value of [-2, 2^w+1]: round trip, acceptance, and (exact "
                       "engine, error checking off) satisfiability / forced result; packing: every schema of the grammar to "
                       "depth %d (%d schemas) x every value of the schema x plain/secret, plus large schemas (repetitions of 16..65 (1025), lists of 17-18 components, moduli up to 2^64+1 (2^200)) on extreme values; states = distinct (schema, unpacked "
                       "value) pairs + search nodes" % (2, len(sch)))
    ctx.sample({"width": 5, "bitlength": 3, "value": 31, "expect": "accepted, 5 bits, satisfiable"})
    ctx.sample({"schema": sdesc(sch[0]), "values": svalues(sch[0])[:4]})


def replay(case):
    if isinstance(case, dict) and case.get("xfeat"):
        from .. import xfeat
        return xfeat.decl_replay(case) if case.get("decl") else xfeat.replay(case, "C16")
    H.bind(case["p"])
    if case["kind"] == "reject":
        r = reject_task((None, case["p"]))
    elif case["kind"] == "wide":
        r = wide_task((case["n"], case["p"]))
    elif case["kind"] == "width":
        r = width_task((case["n"], case["p"]))
    else:
        s = [x for x in schemas(2) if sdesc(x) == case["desc"]]
        if not s:
            s = [("BIG", b) for b in big_schemas(1)]
        r = pack_task((s, case["p"]))
    return {"case": case, "violations": [{"sig": v["sig"], "what": v["what"]} for v in r["viols"].values()]}
