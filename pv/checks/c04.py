"""C04: every reported value is congruent to its wire expression on the recorded witness."""
from .. import e1
from .. import opseq as E
from . import _e1common as X


def oracle(prog, vec, mode, n, p, o, extra):
    if not o.mism:
        return
    seen = set()
    for m in o.mism:
        op, ak = m[0], m[1]
        if (op, ak) in seen:
            continue
        seen.add((op, ak))
        yield ({"op": op, "kinds": ak, "mode": mode, "klass": "value!=wire"},
               "%s on %s (bitlength %d, %s): %s returned value %s but its wire evaluates to %s"
               % (E.O.expr_str(prog["expr"], prog["kinds"]), list(vec), n, mode, op, m[2], m[3]))


def run(ctx):
    from .. import xfeat
    xfeat.sweep(ctx, "C04")      # cross-feature compositions (pv/xfeat.py)
    cfg = e1.standard_configs(ctx)
    e1.sweep(ctx, E.depth1_programs(include_fxp=True), cfg, "pv.checks.c04.oracle")
    from ..recorder import BN128, CURVE25519, REAL_FIELDS
    e1.sweep(ctx, E.huge_programs(), [(16, pp, E.huge_lattice(pp)) for pp in REAL_FIELDS.values()], "pv.checks.c04.oracle")
    d2 = X.depth2_family(ctx)
    cfg2 = [(2, BN128, E.D(2))] + ([(3, CURVE25519, E.D(2))] if ctx.thorough else [])
    e1.sweep(ctx, d2, cfg2, "pv.checks.c04.oracle", modes=E.MODES if ctx.thorough else ("ign", "g0"))
    X.real_backend_sweeps(ctx, "pv.checks.c04.oracle", E.MODES)
    e1.wide_sweep(ctx, "pv.checks.c04.oracle", E.MODES, include_assert=True)
    X.structured_sweep(ctx, "pv.checks.c04.oracle", E.MODES, fxp=True)
    X.long_run(ctx, "mism")
    e1.bfs_sweep(ctx, {"value!=wire"}, ctx.thorough)
    e1.dedupe_violations(ctx)
    ctx.cov["traces_validated_against_impl"] = ctx.cov["executions"]
    ctx.cov["exhaustive"] = True
    ctx.cov["rule"] = ("every depth-1 program on all input vectors of D(2), D(3) and the boundary lattices, "
                       "in all four modes (checked, ignore_errors, true guard, false guard); depth-2 on D(2); "
                       "oracle after every API call: value == eval(wire) mod p for every secret reachable "
                       "from the returned object")
    ctx.sample({"program": "truediv(S0, K1)", "inputs": [7, 2], "mode": "ign", "bitlength": 3})


def replay(case):
    if isinstance(case, dict) and case.get("xfeat"):
        from .. import xfeat
        return xfeat.replay(case, "C04")
    return X.replay_case(case, oracle)
