"""C17: a @snark function exposes exactly its arguments and results as public values.

Enumerates argument structures (nestings of list/tuple/dict over int, bool, float, str, None and
secret leaves) x function bodies (identity, product, comparisons, constant, mixed structure) x call
sequences of length 1..3 in one run on the real code with the recorder: the ordered list of public
variables created by a call must be flatten(numeric arguments) ++ flatten(secret results); every
output variable is tied to the computed wire (all witness choices enumerated); the returned structure
equals the undecorated function on plain values; keyword arguments are refused without side effects."""
import itertools
import random

from .. import common
from .. import harness as H
from .. import recorder as REC
from .. import witness as W

RES = 4         # fixed-point resolution used
S = "<secret>"  # marker for a secret leaf (PrivVal(6))

ARG_SHAPES = [
    3, -2, True, False, 2.5, -0.25, "txt", None, S,
    [1, 2], (4, 2.5), [True, 3], [2.5, 1], {"a": 5, "b": 1.5}, {"k": [1, (2, 0.5)]}, [S, 4], (None, "x", 7),
    [[1, 2], [3, 4]], ([0.5], {"z": 2}), [], {}, {"width": 3, "height": 5}, {"z": 1.5, "m": [2, {"b": 7, "a": 8}]},
]
BODIES = ["identity", "product", "compare", "constant", "mixed", "first_twice", "same_object", "shared_constant", "debug_text"]
# "maybe_boom": the body raises a ValueError of its own when its first number is 13 (the caller handles it), else a product;
# within one sequence every call of this body goes through the SAME wrapped function object


def leaves(x, out=None):
    """Numeric leaves in traversal order (what @snark turns into inputs, and what bodies compute on)."""
    if out is None:
        out = []
    if isinstance(x, (list, tuple)):
        for y in x:
            leaves(y, out)
    elif isinstance(x, dict):
        for k in x:
            leaves(x[k], out)
    elif isinstance(x, str) or x is None:
        pass
    else:
        out.append(x)
    return out


import operator as _op
OPFN = {"add": _op.add, "sub": _op.sub, "mul": _op.mul, "truediv": _op.truediv, "floordiv": _op.floordiv, "mod": _op.mod,
        "divmod": divmod, "pow": _op.pow, "lshift": _op.lshift, "rshift": _op.rshift, "and": _op.and_, "or": _op.or_,
        "xor": _op.xor, "lt": _op.lt, "le": _op.le, "eq": _op.eq, "ne": _op.ne, "gt": _op.gt, "ge": _op.ge}
# operator bodies "op:<operator>:<form>": form ab = a op b, ka = constant op a (reflected method), ak = a op constant
OP_CONST = {"truediv": (12, 3), "pow": (2, 2), "lshift": (1, 2), "rshift": (64, 1), "floordiv": (17, 4), "mod": (17, 4), "divmod": (17, 4)}
OP_BODIES = ["op:%s:%s" % (o, f) for o in OPFN for f in ("ab", "ka", "ak") if not (o in ("pow", "lshift", "rshift", "truediv") and f == "ab")]


def body(name):
    def fn(*args):
        L = leaves(list(args))
        if name.startswith("op:"):
            _, o, form = name.split(":")
            a, b = L[0], L[-1]
            kl, kr = OP_CONST.get(o, (17, 5))
            r = OPFN[o](a, b) if form == "ab" else (OPFN[o](kl, a) if form == "ka" else OPFN[o](a, kr))
            return list(r) if isinstance(r, tuple) else r
        if name == "identity":
            return list(args)
        if name == "constant" or not L:
            return 7
        a, b = L[0], L[-1]
        if name == "maybe_boom":
            x = a * b
            if (a.value if hasattr(a, "value") else (a if isinstance(a, int) else None)) == 13:
                raise ValueError("boom")
            return [x, a + 1]
        if name == "debug_text":
            # the body formats its wires (repr, str, %-formatting, f-string) the way a debug print or log line does
            x = a * b
            _t = [repr(a), str(b), "%s %r" % (x, a), "{} {!r}".format(x, b), f"{x}"]
            return [x, a + 1]
        if name == "product":
            return a * b
        if name == "compare":
            return (a < b, [a == a])
        if name == "first_twice":
            return [a + 1, a + 1]
        if name == "same_object":
            x = a * b
            return (x, {"again": x}, [x])       # one wire object published three times
        if name == "shared_constant":
            return [a ** 0, a, a ** 1]          # a**0 is the library's shared constant, a**1 is a itself
        return {"s": a + 1, "t": [b * 2, "str", None], "u": a <= b, "c": 9, "a": a * 3}    # keys deliberately not in sorted order
    return fn


def materialise(shape, secret_value=6):
    """Concrete argument: secret markers become PrivVal (for the traced call) or ints (plain call)."""
    rt = H.rt

    def go(x, plain):
        if x is S or x == S:
            return secret_value if plain else rt.PrivVal(secret_value)
        if isinstance(x, list):
            return [go(y, plain) for y in x]
        if isinstance(x, tuple):
            return tuple(go(y, plain) for y in x)
        if isinstance(x, dict):
            return {k: go(v, plain) for k, v in x.items()}
        return x
    return go(shape, False), go(shape, True)


def plainify(x):
    """Plain-value view of a returned structure for comparison (bools as 0/1, floats exact)."""
    if isinstance(x, list):
        return [plainify(y) for y in x]
    if isinstance(x, tuple):
        return tuple(plainify(y) for y in x)
    if isinstance(x, dict):
        return {k: plainify(v) for k, v in x.items()}
    if isinstance(x, bool):
        return int(x)
    return x


def expected_inputs(args):
    out = []
    for v in leaves(list(args)):
        if isinstance(v, bool):
            out.append(int(v))
        elif isinstance(v, int):
            out.append(v)
        elif isinstance(v, float):
            out.append(int(v * (1 << RES)))
        # secrets passed in are not converted: no public input
    return out


def secret_results(ret):
    """Values of the secret-typed leaves of an (unconverted) result, in traversal order."""
    rt, B, F = H.rt, H.boolean, H.fixedpoint
    out = []
    for v in leaves(ret if isinstance(ret, (list, tuple, dict)) else [ret]):
        if isinstance(v, rt.LinComb):
            out.append(v.value)
        elif isinstance(v, (B.LinCombBool, F.LinCombFxp)):
            out.append(v.lc.value)
    return out


def run_sequence(seq, p, pre=False):
    """seq: list of (body name, [arg shapes]).  Returns list of problems.
    pre=True: every function is DECORATED first, under the library's default bitlength and fixed-point resolution, and
    only then the program switches to its working configuration and makes the calls (a wrapper must not remember the
    configuration it was created under)."""
    H.R.p = p
    rt = H.rt
    pre_wrappers = {}
    if pre:
        H.reset()
        for bname, _shapes in seq:
            if bname not in pre_wrappers:
                slot = [None]
                pre_wrappers[bname] = (rt.snark(lambda *a, _s=slot: _s[0](*a)), slot)
    H.reset(bitlength=12, resolution=RES)
    problems = []
    shared_wrappers = {}
    for ci, (bname, shapes) in enumerate(seq):
        traced, plain = zip(*[materialise(s) for s in shapes]) if shapes else ((), ())
        fn = body(bname)
        nv0, nc0 = len(H.R.vars), len(H.R.cons)
        captured = {}

        def spy(*a):
            r = fn(*a)
            captured["ret"] = r
            captured["nvars_at_return"] = len(H.R.vars)
            return r
        try:
            if pre:
                pre_wrappers[bname][1][0] = spy
                got = pre_wrappers[bname][0](*traced)
            elif bname == "maybe_boom":
                # one wrapped function object for the whole sequence (the spy is re-pointed per call)
                if "w" not in shared_wrappers:
                    shared_wrappers["spy"] = [spy]
                    shared_wrappers["w"] = rt.snark(lambda *a: shared_wrappers["spy"][0](*a))
                shared_wrappers["spy"][0] = spy
                got = shared_wrappers["w"](*traced)
            else:
                got = rt.snark(spy)(*traced)
        except ValueError as ex:
            if bname == "maybe_boom" and str(ex) == "boom":
                continue            # the caller handles the body's own error and goes on with the next call
            problems.append(("call-raises", ci, "%s: %s" % (type(ex).__name__, str(ex)[:100])))
            return problems
        except Exception as ex:  # noqa: BLE001
            problems.append(("call-raises", ci, "%s: %s" % (type(ex).__name__, str(ex)[:100])))
            return problems
        try:
            want = fn(*plain)
        except Exception as ex:  # noqa: BLE001
            problems.append(("harness-plain-call-raises", ci, repr(ex)))
            return problems
        secret_leaves = [x for x in leaves(got if isinstance(got, (list, tuple, dict)) else [got])
                         if isinstance(x, (rt.LinComb, H.boolean.LinCombBool, H.fixedpoint.LinCombFxp))]
        if secret_leaves:
            problems.append(("returned-structure-contains-unconverted-secrets", ci,
                             "snark returned %d secret object(s) instead of plain values (no public output was created for them)" % len(secret_leaves)))
            return problems
        big = any(isinstance(x, (int, float)) and not isinstance(x, bool) and abs(x) > 2 ** 40 for x in leaves(list(plain)))
        if plainify(got) != plainify(want) and not big:      # big operands: Python's own float arithmetic is inexact, only the published integers are compared
            problems.append(("returned-structure-differs", ci, "snark returned %r, the undecorated function gives %r" % (got, want)))
        newvars = H.R.vars[nv0:]
        pubs = [v for k, v in newvars if k == "pub"]
        exp_in = expected_inputs(traced)
        exp_out = secret_results(captured.get("ret"))
        if pubs != exp_in + exp_out:
            klass = "public-values-differ"
            if sorted(map(str, pubs)) == sorted(map(str, exp_in + exp_out)):
                klass = "public-values-out-of-order"
            problems.append((klass, ci, "public variables created: %s, expected inputs %s then outputs %s" % (pubs, exp_in, exp_out)))
        # outputs tied to the computed wires: pin everything that existed when the body returned
        nret = captured.get("nvars_at_return", len(H.R.vars))
        out_vars = [i for i in range(nret + 1, len(H.R.vars) + 1) if H.R.vars[i - 1][0] == "pub"]
        if out_vars:
            fixed = {i: H.R.vars[i - 1][1] % p for i in range(1, nret + 1)}
            try:
                sols, undec, s = W.exact(H.R.cons, len(H.R.vars), fixed, p)
                if undec:
                    problems.append(("undecided", ci, ""))
                else:
                    for sol in sols:
                        for ov in out_vars:
                            if ov in sol.free or any(ov == d for d, _ in sol.dependent) or sol.asg.get(ov) != H.R.vars[ov - 1][1] % p:
                                problems.append(("output-not-tied-to-wire", ci, "public output variable v%d can take another value" % ov))
                                break
            except W.Capped:
                problems.append(("undecided", ci, ""))
        bad = H.R.unsatisfied()
        if bad:
            problems.append(("unsat", ci, "constraints %s" % bad[:3]))
    return problems


def kwargs_check(p):
    H.R.p = p
    H.reset(bitlength=12, resolution=RES)
    out = []
    n0 = (len(H.R.vars), len(H.R.cons))
    for kw in ({"k": 1}, {"x": 2.5, "y": [1]}):
        try:
            H.rt.snark(lambda *a, **k: 1)(3, **kw)
            out.append(("keyword-arguments-accepted", 0, "call with %r returned" % kw))
        except ValueError:
            pass
        except Exception as ex:  # noqa: BLE001
            out.append(("keyword-arguments-wrong-exception", 0, type(ex).__name__))
        if (len(H.R.vars), len(H.R.cons)) != n0:
            out.append(("keyword-call-has-side-effects", 0, "variables or constraints were created before the refusal"))
    return out


def minimal_import_child(ctx):
    """Fresh interpreter that imports nothing but pysnark.runtime (recorder injected) and calls @snark functions with
    float / bool / int arguments."""
    import json as _json
    import os as _os
    import subprocess as _sp
    child = _os.path.join(common.VERIF, "pv", "children", "minimal_child.py")
    r = _sp.run([common.PY, child, _json.dumps({"scenario": "snark-only-runtime-imported", "tree": common.TREE})],
                capture_output=True, text=True, env=dict(_os.environ, PYTHONHASHSEED="0"), start_new_session=True, timeout=120)
    rep = None
    for ln in r.stdout.splitlines():
        if ln.startswith("@@"):
            rep = _json.loads(ln[2:])
    if rep is None or not rep.get("backend_is_recorder"):
        ctx.harness_errors.append("minimal-import child failed: " + (r.stderr[-300:] or r.stdout[-300:]))
        return
    res = rep.get("resolution") or 8
    ctx.cov["minimal_import_calls"] = len(rep["calls"])
    for c in rep["calls"]:
        exp = []
        for a in c["args"]:
            exp.append(int(a) if isinstance(a, bool) else (a if isinstance(a, int) else int(a * (1 << res))))
        want_out = {"area": [int(1.5 * 2.5 * (1 << res))], "flag": [1], "mix": [3], "scale": [int(0.75 * (1 << res))], "both": [3 << res, 0]}[c["name"]]
        if c["error"] or c["pubs"] != exp + want_out:
            ctx.violation({"klass": "public-values-differ", "via": "only-runtime-imported", "call": c["name"]},
                          {"minimal": c["name"]},
                          "fresh interpreter importing only pysnark.runtime (modules loaded before the call: %s): snark(%s)%s created public "
                          "values %s%s, expected inputs %s then outputs %s" % (c["loaded_before"], c["name"], tuple(c["args"]), c["pubs"],
                                                                             (" and raised " + c["error"]) if c["error"] else "", exp, want_out))


def _task(t):
    chunk, p = t
    st = {"sequences": 0, "transitions": 0, "executions": 0}
    viols = {}
    for seq in chunk:
        st["sequences"] += 1
        st["executions"] += 1
        st["transitions"] += len(seq)
        res = [(k_, c_, t_, False) for k_, c_, t_ in (kwargs_check(p) if seq == "kwargs" else run_sequence(seq, p))]
        if seq != "kwargs":
            st["executions"] += 1
            res += [(k_, c_, t_ + " [functions decorated before the configuration change]", True) for k_, c_, t_ in run_sequence(seq, p, pre=True)]
        for klass, ci, text, pre_ in res:
            sig = {"klass": klass}
            if pre_:
                sig["predecorated"] = True
            if klass in ("public-values-out-of-order", "public-values-differ") and seq != "kwargs":
                kinds = sorted({type(x).__name__ for _, shp in seq for x in leaves(list(shp))})
                sig["mix"] = "+".join(kinds)
            k = common.sig_hash(sig)
            if k not in viols:
                viols[k] = {"sig": sig, "count": 0, "what": "call sequence %r, call %d: %s" % (seq, ci, text), "case": {"seq": seq, "p": p, "pre": pre_}}
            viols[k]["count"] += 1
    return {"st": st, "viols": viols}


def sequences(level):
    seqs = []
    one_arg = [[s] for s in ARG_SHAPES]
    two_arg = [[a, b] for a in ARG_SHAPES[:12] for b in ARG_SHAPES[:12]] if level >= 1 else \
              [[a, b] for a in (3, True, 2.5, S, [1, 2], {"a": 5, "b": 1.5}) for b in (-2, 2.5, "txt", (4, 2.5), [S, 4])]
    calls = []
    for b in BODIES:
        for a in one_arg + two_arg + [[]]:
            calls.append((b, a))
    seqs += [[c] for c in calls]
    # every operator (plain, reflected with a constant on the left, constant on the right) as a body: nothing but the
    # arguments and the result may become public, whatever the operator creates internally
    opcalls = [(b, a) for b in OP_BODIES for a in ([6], [S], [3, S], [S, 3])]
    seqs += [[c] for c in opcalls]
    seqs += [[("product", [3]), c] for c in opcalls[:: 2]]
    # results beyond the 53-bit mantissa of a double: the published output is the exact wire value
    for a in ([2 ** 53 + 1, 1.00390625], [1.00390625, 2 ** 53 + 1], [2 ** 53 + 1, S], [float(2 ** 60), 3], [2 ** 62 + 1, 2.5]):
        for b in ("product", "identity", "first_twice"):
            seqs.append([(b, a)])
    # sizes: many leaves, deep nesting, many arguments, many calls in one run
    wide = list(range(1, 41))
    deep = [1, [2, [3, [4, [5, [6, (7, {"k": [8, 2.5]})]]]]]]
    for b in ("identity", "product", "mixed", "same_object"):
        seqs.append([(b, [wide])])
        seqs.append([(b, [deep])])
        seqs.append([(b, [{("k%02d" % i): i for i in range(33)}])])
        seqs.append([(b, list(range(3, 20)))])                      # 17 positional arguments
        seqs.append([(b, [[S] * 33 + [4]])])
    # long sequences that start with scalars and contain a container later on (and the other way round)
    late = list(range(1, 36)) + [[7, 8]] + [9, (10, 2.5), {"k": 11}]
    early = [[1, 2]] + list(range(3, 40))
    for b in ("identity", "mixed", "same_object"):
        seqs.append([(b, [late])])
        seqs.append([(b, [tuple(late)])])
        seqs.append([(b, [early])])
        seqs.append([(b, list(range(1, 33)) + [[5, 6], 7])])        # 34 positional arguments, a list among the last ones
        seqs.append([(b, [[S] * 32 + [[S, 2]]])])
    # a call whose body raises (handled by the caller), then further calls of the SAME wrapped function
    for first in ([13, S], [13, 4]):
        for later in ([3, S], [S, 5], [2.5, 3]):
            seqs.append([("maybe_boom", first), ("maybe_boom", later)])
            seqs.append([("maybe_boom", later), ("maybe_boom", first), ("maybe_boom", later), ("product", [3, S])])
    seqs.append([("product", [3 + (i % 5), S]) for i in range(40)])   # 40 calls in one run
    seqs.append([("identity", [[i, 2.5]]) for i in range(70)])
    sub = calls[:: (2 if level >= 1 else 5)]
    seqs += [[a, b] for a in sub for b in sub[:: 3]]
    sub3 = sub[:: 3]
    seqs += [[a, b, c] for a in sub3 for b in sub3[:: 2] for c in sub3[:: 3]]
    return seqs


def _init():
    H.bind(REC.BN128)
    import warnings
    warnings.simplefilter("ignore")


def run(ctx):
    p = [REC.BN128, REC.BLS12_381, REC.CURVE25519][ctx.seed % 3]
    seqs = sequences(1 if ctx.thorough else 0) + ["kwargs"]
    random.Random(ctx.seed).shuffle(seqs)
    n = common.NCPU * 2
    results = common.pool_map(_task, [(seqs[i::n], p) for i in range(n) if seqs[i::n]], init=_init)
    agg = {}
    for r in results:
        common.merge_counts(agg, r["st"])
        for v in r["viols"].values():
            ctx.violations.append({"sig": v["sig"], "case": v["case"], "what": v["what"] + " (x%d)" % v["count"]})
    minimal_import_child(ctx)
    from .. import e1
    e1.dedupe_violations(ctx)
    ctx.cov.update(agg)
    ctx.cov["states"] = agg["sequences"]
    ctx.cov["distinct_outcomes"] = len(ARG_SHAPES) * len(BODIES) + len(OP_BODIES)
    ctx.cov["traces_validated_against_impl"] = agg["executions"]
    ctx.cov["exhaustive"] = True
    ctx.cov["rule"] = ("argument structures: %d shapes (scalars int/bool/float/str/None/secret, nested lists, tuples, dicts to "
                       "depth 2, empty containers) alone and in pairs x 6 bodies (identity, product, comparisons, constant, "
                       "mixed dict/list/tuple result with plain members, the same wire twice) x call sequences of length "
                       "1..3 in one run; plus keyword-argument calls" % len(ARG_SHAPES))
    ctx.sample({"sequence": [["mixed", [[1, 2], 2.5]]], "expected_public": "1, 2, 40 then the secret results in order"})


class _Ctx:
    def __init__(self):
        self.cov, self.harness_errors, self.viols = {}, [], []

    def violation(self, sig, case, what):
        self.viols.append({"sig": sig, "what": what})


def replay(case):
    if "minimal" in case:
        c = _Ctx()
        minimal_import_child(c)
        return {"scenario": "only pysnark.runtime imported", "violations": c.viols, "harness_errors": c.harness_errors}
    H.bind(case["p"])
    import warnings
    warnings.simplefilter("ignore")

    def fix(x):
        if isinstance(x, list):
            return [fix(y) for y in x]
        return x
    seq = case["seq"]
    if seq == "kwargs":
        pr = kwargs_check(case["p"])
    else:
        seq = [(b, a) for b, a in seq]
        pr = run_sequence(seq, case["p"], pre=bool(case.get("pre")))
    return {"sequence": seq, "violations": [{"klass": k, "call": c, "what": t} for k, c, t in pr]}
