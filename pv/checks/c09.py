"""C09: oblivious if/elif/else, while and for compute what native control flow computes.

E4: every program of a grammar (pv/blocks.py) is emitted as Python source twice - with the
library's block API on secret values, and with native control flow on plain ints - and both are
executed on EVERY input vector of a small complete domain.  Oracles: equal final variable values,
recorder satisfied, one canonical trace per program across all inputs, guard state clean and the
block stack empty at the end."""
import itertools
import random

from .. import blocks
from .. import common
from .. import harness as H
from .. import recorder as REC

XS = [0, 1, 2, 3]
XS_T = [-2, -1, 0, 1, 2, 3, 4]
BITLEN = 20


def compile_pair(stmts, explicit_ctx):
    src_o = blocks.emit_program(stmts, True, explicit_ctx)
    src_n = blocks.emit_program(stmts, False)
    env = {}
    Br = H.branching
    env["if_then_else"] = Br.if_then_else
    from pysnark.array import Array
    env["Array"] = Array
    for nm in ("BranchingValues", "_if", "_elif", "_else", "_endif", "_while", "_endwhile", "_breakif", "_range", "_endfor"):
        env[nm] = getattr(Br, nm)
    # a module-level context of the usual name next to the function's own one (a helper function with a local context
    # inside a script that has a global one): the function's blocks must act on ITS context
    env["_"] = Br.BranchingValues()
    env["_"].x = 1000
    exec(compile(src_o, "<oblivious>", "exec"), env)
    nenv = {"_fd": _fd, "_md": _md}
    exec(compile(src_n, "<native>", "exec"), nenv)
    return env["prog"], nenv["prog"], src_o, src_n


FVAL = 0.75


def _num(w):
    """Plain number held by the float-initialised variable (a fixed-point secret or still a Python number)."""
    if isinstance(w, H.fixedpoint.LinCombFxp):
        return w.lc.value / (1 << H.fixedpoint.resolution)
    if isinstance(w, H.rt.LinComb):
        return float(w.value)
    return float(w)


def _deep(x):
    return tuple(_deep(y) for y in x) if isinstance(x, (list, tuple)) else x


def _want(w):
    return (w[0], w[1], tuple(w[2]), w[3], float(w[4]), _deep(w[5]), tuple(w[6]), _deep(w[7]), tuple(w[8]))


class TwinSkip(Exception):
    pass


def _fd(a, b):
    if b < 0:
        raise TwinSkip()
    return a // b


def _md(a, b):
    if b < 0:
        raise TwinSkip()
    return a % b


def min_checked_for(stmts):
    ms = [st[1] for st in _walk(stmts) if st[0] == "for" and st[3]] + [st[2] for st in _walk(stmts) if st[0] == "for2" and st[4]]
    return min(ms) if ms else None


def min_stop(stmts):
    """Two-argument _range: the secret stop must not be below the public start."""
    return max([st[1] for st in _walk(stmts) if st[0] == "for2"] + [0])


def max_loop(stmts):
    m = 0
    for st in stmts:
        if st[0] == "for2":
            m = max(m, st[2], max_loop(st[3]))
        elif st[0] in ("while", "for"):
            m = max(m, st[2] if st[0] == "while" else st[1])
            m = max(m, max_loop(st[3] if st[0] == "while" else st[2]))
        elif st[0] == "if":
            for _, blk in st[1]:
                m = max(m, max_loop(blk))
            if st[2]:
                m = max(m, max_loop(st[2]))
    return m


def has_checkstop(stmts):
    return "True" in repr([s for s in _walk(stmts) if s[0] == "for" and s[3]])


def _walk(stmts):
    for st in stmts:
        yield st
        if st[0] == "if":
            for _, blk in st[1]:
                yield from _walk(blk)
            if st[2]:
                yield from _walk(st[2])
        elif st[0] == "while":
            yield from _walk(st[3])
        elif st[0] == "for":
            yield from _walk(st[2])
        elif st[0] == "for2":
            yield from _walk(st[3])
        elif st[0] == "lazy":
            pass


def run_one(fo, fn, vec, p):
    x, y, b, n = vec
    H.R.p = p
    H.reset(bitlength=BITLEN)
    rt, B = H.rt, H.boolean
    X, Y, Bv, N = rt.PrivVal(x), rt.PrivVal(y), B.PrivValBool(b), rt.PrivVal(n)
    Fv = H.fixedpoint.PrivValFxp(FVAL)
    nv0, nc0 = len(H.R.vars), len(H.R.cons)
    try:
        want = fn(x, y, bool(b), n, FVAL)
    except Exception as ex:  # noqa: BLE001
        return {"twin_error": repr(ex)}
    out = {"want": want}
    try:
        rx, ry, ctx, rl, rk, rw, rm, ra, rq, rl2 = fo(X, Y, Bv, N, Fv)
        out["got"] = (H.plain(rx), H.plain(ry), tuple(H.plain(rl)), H.plain(rk), _num(rw), _deep(H.plain(rm)), tuple(H.plain(ra)), _deep(H.plain(rq)), tuple(H.plain(rl2)))
        out["stack"] = len(ctx.stack)
        out["mism"] = H.value_wire_mismatches([rx, ry, rl, rk, rw, rm, ra, rq])
    except Exception as ex:  # noqa: BLE001
        out["exc"] = "%s: %s" % (type(ex).__name__, str(ex)[:100])
        out["exc_type"] = type(ex).__name__
        # leave no dangling state for the next execution
    out["unsat"] = H.R.unsatisfied()
    out["triple_ok"] = H.triple_clean()
    if "exc" not in out:
        out["trace"] = hash(H.R.canonical_trace(nv0, nc0))
        out["ncons"] = len(H.R.cons) - nc0
    return out


def _task(t):
    chunk, p, thorough = t
    st = {"programs": 0, "executions": 0, "transitions": 0, "overflow_skipped": 0}
    viols = {}
    outcomes = set()
    xs = XS_T if thorough else XS
    for stmts in chunk:
        st["programs"] += 1
        use = blocks.uses(stmts)
        mx = max_loop(stmts)
        mc = min_checked_for(stmts)
        ns = list(range(min_stop(stmts), (mx if mc is None else mc) + 1)) if "n" in use else [1]
        bs = [0, 1] if "b" in use else [0]
        xs_ = xs
        if mx > 8:
            # long loops: a lattice of stops around the usual block sizes, two operand values
            ns = sorted({0, 1, 3, 31, 32, 33, 63, 64, 65, mx - 1, mx} & set(range(0, mx + 1)))
            xs_ = [0, 3]
        chk = has_checkstop(stmts)
        for explicit in (True, False):
            try:
                fo, fn, so, sn = compile_pair(stmts, explicit)
            except Exception as ex:  # noqa: BLE001
                viols["compile"] = {"sig": {"klass": "harness-compile-error"}, "count": 1, "what": repr(ex), "case": {"stmts": stmts}}
                continue
            traces = {}

            def report(klass, vec, text, extra=None):
                sig = {"klass": klass, "shape": shape(stmts), "ctx": "explicit" if explicit else "lookup"}
                if extra:
                    sig.update(extra)
                k = common.sig_hash(sig)
                if k not in viols:
                    viols[k] = {"sig": sig, "count": 0,
                                "what": "program\n%s on (x,y,b,n)=%s: %s" % (so, list(vec), text),
                                "case": {"stmts": stmts, "vec": list(vec), "explicit": explicit, "p": p}}
                viols[k]["count"] += 1

            for vec in itertools.product(xs_, xs_, bs, ns):
                r = run_one(fo, fn, vec, p)
                st["executions"] += 1
                if "twin_error" in r:
                    continue
                st["transitions"] += r.get("ncons", 0)
                if "exc" in r:
                    report("raises", vec, "oblivious program raises %s; native twin gives %s" % (r["exc"], r["want"]),
                           {"exc": r["exc_type"]})
                    continue
                outcomes.add(r["got"])
                r["want"] = _want(r["want"])
                if tuple(r["got"]) != tuple(r["want"]):
                    report("wrong-result", vec, "oblivious program ends with (x,y,l,k,w,m,a,q,l2)=%s, native twin with %s" % (r["got"], r["want"]))
                if r["unsat"]:
                    report("unsat", vec, "constraints %s not satisfied by the recorded witness" % r["unsat"][:3])
                if r["mism"]:
                    report("value!=wire", vec, "final variable value differs from its wire: %s" % (r["mism"][:1],))
                if not r["triple_ok"] or r["stack"]:
                    report("state-left-behind", vec, "guard state not clean or %d contexts left on the stack" % r["stack"])
                traces.setdefault(r["trace"], vec)
            if len(traces) > 1:
                vs = list(traces.values())[:2]
                report("trace-depends-on-inputs", vs[0], "inputs %s and %s emit different constraint systems" % (vs[0], vs[1]))
            # loop bounds beyond the public maximum must be refused when asked to check
            if chk and "n" in use:
                for vec in itertools.product(XS[:2], XS[:2], bs, [mc + 1, mc + 2]):
                    r = run_one(fo, fn, vec, p)
                    st["executions"] += 1
                    if "exc" not in r and only_top_level_for(stmts):
                        report("stop-beyond-max-accepted", vec, "checkstopmax=True but stop=%d > max was accepted" % vec[3])
    return {"st": st, "viols": viols, "outcomes": len(outcomes)}


def only_top_level_for(stmts):
    """checkstopmax is only guaranteed to fire when the loop is not itself under a false guard."""
    return all(st[0] != "if" and st[0] != "while" for st in stmts) and any(
        (st[0] == "for" and st[3] and st[1] == min_checked_for(stmts) and not (len(st) > 4 and st[4])) or (st[0] == "for2" and st[4] and st[2] == min_checked_for(stmts)) for st in stmts)


def shape(stmts):
    def s(st):
        if st[0] == "assign":
            return "a"
        if st[0] == "lazy":
            return "lazy"
        if st[0] == "if":
            return "if(" + "|".join(",".join(s(x) for x in blk) for _, blk in st[1]) + (("|else:" + ",".join(s(x) for x in st[2])) if st[2] is not None else "") + ")"
        if st[0] == "while":
            return "while(" + ",".join(s(x) for x in st[3]) + (";brk" if st[4] else "") + ")"
        if st[0] == "for2":
            return "for2(" + ",".join(s(x) for x in st[3]) + (";chk" if st[4] else "") + ")"
        return "for(" + ",".join(s(x) for x in st[2]) + (";chk" if st[3] else "") + ")"
    return ";".join(s(x) for x in stmts)


def _init():
    import sys
    H.bind(REC.BN128)
    # BranchingValues.__del__ raises when a history deliberately left a block open (stop > max):
    # keep stderr readable
    sys.unraisablehook = lambda *a: None


def run(ctx):
    from .. import xfeat
    xfeat.sweep(ctx, "C09")      # cross-feature compositions (pv/xfeat.py)
    progs = blocks.programs(1 if ctx.thorough else 0)
    random.Random(ctx.seed).shuffle(progs)
    nchunks = common.NCPU * 6
    chunks = [progs[i::nchunks] for i in range(nchunks)]
    p = [REC.BN128, REC.BLS12_381, REC.CURVE25519][ctx.seed % 3] if not ctx.thorough else REC.BN128
    results = common.pool_map(_task, [(c, p, ctx.thorough) for c in chunks if c], init=_init)
    agg = {}
    nout = 0
    for r in results:
        common.merge_counts(agg, r["st"])
        nout += r["outcomes"]
        for v in r["viols"].values():
            ctx.violations.append({"sig": v["sig"], "case": v["case"], "what": v["what"] + " (x%d)" % v["count"]})
    from .. import e1
    e1.dedupe_violations(ctx)
    ctx.cov.update(agg)
    ctx.cov["states"] = nout
    ctx.cov["distinct_outcomes"] = nout
    ctx.cov["traces_validated_against_impl"] = agg["executions"]
    ctx.cov["exhaustive"] = True
    ctx.cov["rule"] = ("variables: two integer secrets, a list of two, a nested list and an Array object (modified in place), one starting as the plain int 5 and one as the plain float 1.5 (assigned integer / fixed-point secrets inside blocks); program = statement list from the grammar assign | if/elif/else | while+breakif | for _range(secret "
                       "stop, public max) (conditions x<y, x==1, b, ~b, b&(x<=y); loop maxima 2,3 and single long loops with maximum 70 (130 thorough) on a lattice of stops; nesting 1 quick / 2 "
                       "thorough), emitted with explicit ctx= and with local-variable context lookup; inputs = all "
                       "(x,y) in {0..3}^2 x b in {0,1} x stop in 0..max; transitions = constraints emitted; states = "
                       "distinct final (x,y) outcomes per worker summed")
    ctx.sample({"program": blocks.emit_program(progs[0], True), "twin": blocks.emit_program(progs[0], False)})


def replay(case):
    if isinstance(case, dict) and case.get("xfeat"):
        from .. import xfeat
        return xfeat.replay(case, "C09")
    H.bind(case["p"])

    def tup(x):
        return tuple(tup(y) for y in x) if isinstance(x, list) else x
    stmts = [tup(s) for s in case["stmts"]]
    stmts = _fix(stmts)
    fo, fn, so, sn = compile_pair(stmts, case["explicit"])
    r = run_one(fo, fn, tuple(case["vec"]), case["p"])
    r["want"] = _want(r["want"])
    bad = ("exc" in r) or tuple(r.get("got", ())) != tuple(r["want"]) or r["unsat"]
    r.pop("trace", None)
    return {"oblivious": so, "native": sn, "inputs": case["vec"], "result": r, "violations": [r] if bad else []}


def _fix(stmts):
    """JSON turns block lists into lists (tuples after tup): restore list-of-statements shape."""
    out = []
    for st in stmts:
        if st[0] in ("assign", "lazy"):
            out.append(st)
        elif st[0] == "if":
            arms = [(c, _fix(list(blk))) for c, blk in st[1]]
            out.append(("if", arms, _fix(list(st[2])) if st[2] is not None else None))
        elif st[0] == "while":
            out.append(("while", st[1], st[2], _fix(list(st[3])), st[4]))
        elif st[0] == "for2":
            out.append(("for2", st[1], st[2], _fix(list(st[3])), st[4]))
        else:
            out.append(("for", st[1], _fix(list(st[2])), st[3]) + tuple(st[4:]))
    return out
