"""C06: the emitted constraint system does not depend on the values processed.

Stateless enumeration (no state merging): every program is run on ALL input vectors of the domain,
checked and unchecked, under a true and a false guard; all completed runs of one program (same
public literals) must have one canonical trace per mode class, and checked / unchecked traces must
coincide.  Also validates the recorder against pysnark.snarkjsbackend (same explorer, real backend)."""
import itertools
import json
import os
import random
import subprocess
import sys

from .. import common
from .. import harness as H
from .. import opseq as E
from .. import ops as O
from .. import recorder as REC
from . import _e1common as X

CLASSES = {"plain": "unguarded", "ign": "unguarded", "g0": "guarded", "g1": "guarded",
           "n00": "nested", "n01": "nested", "n10": "nested", "n11": "nested"}


def extra_programs():
    I = lambda i: ("in", i)
    P = []
    for name in ("add", "mul", "floordiv", "lt", "eq", "and", "rshift", "truediv"):
        P.append({"expr": ("op", name, I(0), I(1)), "kinds": ["P", "S"]})
        P.append({"expr": ("op", name, I(0), I(1)), "kinds": ["S", "P"]})
    P.append({"expr": ("op", "if_then_else", ("op", "lt", I(0), I(1)), I(0), I(1)), "kinds": ["S", "S"]})
    P.append({"expr": ("op", "if_then_else", ("op", "eq", I(0), I(1)), ("op", "mul", I(0), I(1)), I(1)), "kinds": ["S", "P"]})
    return P


def _task(t):
    prog, n, p, vals = t[:4]
    modes = E.MODES + (E.NESTED_MODES if (len(t) > 4 and t[4]) else ())
    structured = isinstance(vals, E.Structured)
    if structured:
        modes = ("plain", "ign") if vals.full else ("plain",)
    name = O.expr_str(prog["expr"], prog["kinds"])
    kinds = prog["kinds"]
    const_idx = [i for i, k in enumerate(kinds) if k == "K"]
    st = {"executions": 0, "completed": 0, "transitions": 0, "groups": 0, "groups_with_2plus_runs": 0,
          "distinct_traces": 0}
    viols = {}
    groups = {}
    growing = (n > 16 or structured) and any(op in ("pow", "lshift", "rshift") for op in O.expr_ops(prog["expr"]))
    for vec in E.input_vectors(prog, vals):
        if growing and len(vec) > 1 and abs(vec[1]) > (40 if structured else 1024):
            continue        # exponents / shift counts of 2^32 and more (see pv/e1.py)
        key = tuple(vec[i] for i in const_idx)
        g = groups.setdefault(key, {})
        for mode in modes:
            o = E.execute(prog, vec, mode, n, True, p)
            st["executions"] += 1
            st["transitions"] += o.calls
            if o.status != "ok":
                continue
            st["completed"] += 1
            tr = hash((o.trace, o.result_wires))
            cls = g.setdefault(CLASSES[mode], {})
            if tr not in cls:
                cls[tr] = (list(vec), mode, len(o.trace[1]), len(o.trace[0]))
            cls.setdefault("_n", [0])[0] += 1
    for key, g in groups.items():
        for cname, cls in g.items():
            nruns = cls.pop("_n")[0]
            st["groups"] += 1
            if nruns >= 2:
                st["groups_with_2plus_runs"] += 1
            st["distinct_traces"] += len(cls)
            if len(cls) > 1:
                reps = list(cls.values())[:2]
                sig = {"op": "/".join(O.expr_ops(prog["expr"])), "kinds": "".join(kinds), "klass": "trace-depends-on-values",
                       "class": cname, "modes": "+".join(sorted({reps[0][1], reps[1][1]})),
                       "shape": "count" if (reps[0][2], reps[0][3]) != (reps[1][2], reps[1][3]) else "coefficients"}
                k = common.sig_hash(sig)
                if k not in viols:
                    viols[k] = {"sig": sig, "count": 0,
                                "what": "%s (bitlength %d): runs on %s (%s: %d constraints, %d variables) and on %s "
                                        "(%s: %d constraints, %d variables) emit different constraint systems"
                                        % (name, n, reps[0][0], reps[0][1], reps[0][2], reps[0][3],
                                           reps[1][0], reps[1][1], reps[1][2], reps[1][3]),
                                "case": {"prog": prog, "n": n, "p": p, "a": reps[0][:2], "b": reps[1][:2]}}
                viols[k]["count"] += 1
    return {"name": name, "st": st, "viols": viols}


def _init():
    H.bind(REC.BN128)


def validate_recorder_start(n):
    """Children are started before the in-process sweep and collected after it."""
    env = dict(os.environ, PYTHONHASHSEED="0")
    env.pop("PYSNARK_BACKEND", None)
    procs = []
    for which, seed, extra in (("recorder", "0", []), ("pysnark.snarkjsbackend", "0", []),
                               ("recorder", "0", ["blocks"]), ("recorder", "1", ["blocks"]), ("recorder", "4242", ["blocks"])):
        procs.append((which, seed, subprocess.Popen([common.PY, "-m", "pv.xbackend", which, str(n)] + extra, cwd=common.VERIF,
                                                    env=dict(env, PYTHONHASHSEED=seed), stdout=subprocess.PIPE, stderr=subprocess.PIPE,
                                                    text=True, start_new_session=True)))
    return procs


def validate_recorder_finish(ctx, procs):
    """Same explorer against the real snarkjs backend in a fresh process; traces must be identical.  And the same
    explorer (plus block programs) in three fresh interpreters with DIFFERENT string-hash seeds: the traces must not
    depend on the iteration order of sets / dicts keyed by names."""
    outs = []
    for which, seed, pr in procs:
        so, se = pr.communicate()
        if pr.returncode != 0:
            ctx.harness_errors.append("xbackend %s (hash seed %s) failed: %s" % (which, seed, se[-300:]))
            return
        outs.append(json.loads(so))
    a, b = outs[0], outs[1]
    seeded = outs[2:]
    ctx.cov["hash_seed_runs"] = len(seeded)
    ctx.cov["hash_seed_executions"] = sum(len(x) for x in seeded)
    for other, seed in zip(seeded[1:], ("1", "4242")):
        d2 = [k for k in seeded[0] if seeded[0][k] != other.get(k)]
        if d2:
            ctx.violation({"klass": "trace-depends-on-hash-seed", "first": d2[0].split("|")[0]}, {"keys": d2[:20], "seed": seed},
                          "the same programs traced in interpreters with PYTHONHASHSEED=0 and PYTHONHASHSEED=%s emit different "
                          "constraint systems for %d of %d executions (e.g. %s)" % (seed, len(d2), len(seeded[0]), d2[:1]))
    diff = [k for k in a if a[k] != b.get(k)]
    ctx.cov["traces_validated_against_impl"] = len(a) - len(diff)
    ctx.cov["recorder_vs_snarkjs_executions"] = len(a)
    if diff or len(a) != len(b):
        ctx.violation({"klass": "recorder-and-snarkjs-backend-traces-differ", "first": diff[0] if diff else "size"},
                      {"keys": diff[:20]},
                      "the recording backend and pysnark.snarkjsbackend received different traces for %d of %d executions "
                      "(e.g. %s)" % (len(diff), len(a), diff[:1]))


def run(ctx):
    from .. import xfeat
    xfeat.sweep(ctx, "C06")      # cross-feature compositions (pv/xfeat.py)
    children = validate_recorder_start(3)
    progs = E.depth1_programs(include_fxp=True) + extra_programs()
    tasks = []
    # bitlength 65 / 128: values below and above the 64-bit word boundary must still give one trace
    cfgs = [(3, REC.BN128), (2, REC.BLS12_381), (65, REC.BN128)] + ([(4, REC.CURVE25519), (8, REC.BN128), (128, REC.BLS12_381), (33, REC.BN128)] if ctx.thorough else [])
    for n, p in cfgs:
        vals = E.D(n) if n <= 3 else E.lattice(n)
        if n == 65 and not ctx.thorough:
            from .. import e1 as _e1
            vals = _e1.wide_values65()
        for prog in progs:
            tasks.append((prog, n, p, vals, n == 2 or ctx.thorough))       # nested guards at bitlength 2
    # structured interior values at the default bitlength 16 (value-dependent fast paths change the trace)
    for prog in progs:
        tasks.append((prog, 16, REC.BN128, E.Structured(16, full=ctx.thorough), False))
    d2 = X.depth2_family(ctx)
    for prog in d2:
        tasks.append((prog, 2, REC.BN128, E.D(2)))
    random.Random(ctx.seed).shuffle(tasks)
    results = common.pool_map(_task, tasks, init=_init)
    agg = {}
    for r in results:
        common.merge_counts(agg, r["st"])
        for v in r["viols"].values():
            ctx.violations.append({"sig": v["sig"], "case": v["case"], "what": v["what"] + " (x%d)" % v["count"]})
    from .. import e1
    e1.dedupe_violations(ctx)
    ctx.cov.update(agg)
    ctx.cov["programs"] = len(tasks)
    ctx.cov["states"] = agg["distinct_traces"]
    ctx.cov["distinct_outcomes"] = agg["groups_with_2plus_runs"]
    validate_recorder_finish(ctx, children)
    ctx.cov["exhaustive"] = True
    ctx.cov["rule"] = ("program = depth-1 program (all operators x operand kinds incl. public inputs, assertions, "
                       "selection) or depth-2 composition; group = program + its public literals + mode class "
                       "(unguarded: checked and ignore_errors runs; guarded: guard 0 and guard 1; nested: two nested "
                       "secret guards 00/01/10/11); every group's "
                       "completed runs over ALL vectors of D(n) must share one canonical trace (variable kinds in "
                       "order, constraints in order with coefficients mod p, result wire expressions); "
                       "distinct_outcomes = groups with >= 2 completed runs (non-trivial comparisons); states = "
                       "distinct traces seen")
    ctx.sample({"program": "floordiv(S0, S1)", "group": "unguarded", "runs": 361 * 2, "distinct_traces": 1})


class _Ctx:
    def __init__(self):
        self.cov, self.harness_errors, self.viols = {}, [], []

    def violation(self, sig, case, what):
        self.viols.append({"sig": sig, "what": what})


def replay(case):
    if isinstance(case, dict) and case.get("xfeat"):
        from .. import xfeat
        return xfeat.replay(case, "C06")
    if "keys" in case:
        c = _Ctx()
        validate_recorder_finish(c, validate_recorder_start(3))
        return {"cross_process_comparison": c.cov, "violations": c.viols, "harness_errors": c.harness_errors}
    H.bind(case["p"])
    prog = {"expr": X._tuplify(case["prog"]["expr"]), "kinds": list(case["prog"]["kinds"])}
    out = []
    for vec, mode in (case["a"], case["b"]):
        o = E.execute(prog, tuple(vec), mode, case["n"], True, case["p"])
        out.append({"inputs": vec, "mode": mode, "status": o.status, "constraints": o.ncons, "variables": o.nvars,
                    "trace_hash": hash((o.trace, o.result_wires))})
    differ = out[0]["trace_hash"] != out[1]["trace_hash"]
    return {"program": O.expr_str(prog["expr"], prog["kinds"]), "runs": out,
            "violations": [{"what": "traces differ"}] if differ else []}
