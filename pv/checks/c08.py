"""C08: guard state is restored on every exit path and nests as a conjunction.

E3 history explorer: ALL well-nested region trees up to a cost/depth bound over an alphabet of
events (enter with 8 kinds of condition, leave, API op, exception raised by the user code, API call
that raises because of its operands, try/except inside a region) are executed on the real code in
three realisations (guarded(c)(f)(), lazily evaluated branches of if_then_else, the _if/_else/_while
block API) and compared, after EVERY event, with a reference stack model."""
import itertools
import random

from .. import common
from .. import harness as H
from .. import recorder as REC

CONDS = ["b1", "b0", "s1", "s0", "i1", "i0", "s2", "str"]
#        bool-typed secret 1/0, integer-typed secret 1/0, public 1, public 0 (refused: unreachable),
#        secret 2 (refused when checking is on), wrong type (refused)


BLOCK_REALS = ("if", "else", "while", "elif", "for")


class UserExc(Exception):
    pass


class UserBaseExc(BaseException):
    """What KeyboardInterrupt / SystemExit / GeneratorExit / a test framework's Skipped are: not an Exception."""


# ------------------------------------------------------------------------------------------------
# tree enumeration.  item = ("op",) | ("raise",) | ("valerr",) | ("try", items) | ("region", c, items)

def trees(budget, depth, conds):
    """All item sequences with total cost <= budget (region = 2, try = 1, others 1)."""
    memo = {}

    def seqs(b, d):
        key = (b, d)
        if key in memo:
            return memo[key]
        out = [()]
        for first_cost in range(1, b + 1):
            for first in items(first_cost, d):
                for rest in seqs(b - first_cost, d):
                    out.append((first,) + rest)
        memo[key] = out
        return out

    imemo = {}

    def items(cost, d):
        """items of exactly this cost"""
        key = (cost, d)
        if key in imemo:
            return imemo[key]
        out = []
        if cost == 1:
            out += [("op",), ("raise",), ("valerr",)]
        if d > 0 and cost >= 2:
            for inner in exact_seqs(cost - 2, d - 1):
                for c in conds:
                    out.append(("region", c, inner))
        if cost >= 2:
            for inner in exact_seqs(cost - 1, d):
                if inner:
                    out.append(("try", inner))
        imemo[key] = out
        return out

    ememo = {}

    def exact_seqs(b, d):
        key = (b, d)
        if key in ememo:
            return ememo[key]
        if b == 0:
            ememo[key] = [()]
            return ememo[key]
        out = []
        for fc in range(1, b + 1):
            for first in items(fc, d):
                for rest in exact_seqs(b - fc, d):
                    out.append((first,) + rest)
        ememo[key] = out
        return out

    return [s for s in seqs(budget, depth) if s]


def tree_str(items):
    out = []
    for it in items:
        if it[0] == "region":
            out.append("%s{%s}" % (it[1], tree_str(it[2])))
        elif it[0] == "try":
            out.append("try{%s}" % tree_str(it[1]))
        else:
            out.append(it[0])
    return " ".join(out)


def escapes(items):
    """Does an exception possibly escape this sequence (raise/valerr outside any try)?"""
    for it in items:
        if it[0] in ("raise", "valerr"):
            return True
        if it[0] == "region" and escapes(it[2]):
            return True
    return False


# ------------------------------------------------------------------------------------------------

class Exec:
    def __init__(self, real, report):
        # "<realisation>-shared": the SAME condition object is used for every region with the same kind
        # of condition (a condition computed once and tested in several places)
        self.share = real.endswith("-shared")
        self.cond_cache = {}
        real = real[:-7] if self.share else real
        # "guarded-sameobj": ONE guarded(cond) decorator object per kind of condition, re-entered when a region of that
        # kind contains another one (a recursive @guarded function, one decorator object on two functions)
        self.sameobj = real == "guarded-sameobj"
        self.gcache = {}
        if self.sameobj:
            real = "guarded"
        # "-bexc": the user's exception is a BaseException that is not an Exception
        self.bexc = real.endswith("-bexc")
        if self.bexc:
            real = real[:-5]
        self.real = real
        self.report = report
        self.model = []          # values of the active secret conditions
        self.events = 0
        self.ctx = None
        self.states = set()

    # --- reference model
    def eff(self):
        e = 1
        for v in self.model:
            e *= v
        return e

    def make_cond(self, c):
        if self.share and c in ("b1", "b0", "s1", "s0"):
            if c not in self.cond_cache:
                self.cond_cache[c] = self._make_cond(c)
            return self.cond_cache[c]
        return self._make_cond(c)

    def _make_cond(self, c):
        rt, B = H.rt, H.boolean
        return {"b1": lambda: B.PrivValBool(1), "b0": lambda: B.PrivValBool(0),
                "s1": lambda: rt.PrivVal(1), "s0": lambda: rt.PrivVal(0),
                "i1": lambda: 1, "i0": lambda: 0, "s2": lambda: rt.PrivVal(2), "str": lambda: "x"}[c]()

    def check_state(self, where):
        """Invariant evaluated after every event."""
        rt = H.rt
        self.events += 1
        secret = len(self.model) > 0
        eff = self.eff()
        self.states.add((tuple(self.model), rt.guard is None, rt._ignore_errors, rt.LinComb.ONE is rt.LinComb.ONE_SAFE))
        if not secret:
            if not H.triple_clean():
                self.report("state-not-clean-outside-regions", where,
                            "outside all secret regions: guard=%r ignore=%r ONE is ONE_SAFE=%r"
                            % (rt.guard, rt._ignore_errors, rt.LinComb.ONE is rt.LinComb.ONE_SAFE))
            return
        g = rt.guard
        if g is None:
            self.report("no-guard-inside-region", where, "inside %s no guard is active" % self.model)
            return
        if g.value != eff or H.R.ev(g.lc) != eff % H.R.p:
            self.report("guard-not-conjunction", where, "conditions %s: guard value %r, wire %r, expected %d"
                        % (self.model, g.value, H.R.ev(g.lc), eff))
        if rt.is_guard() != (eff == 1) or rt.ignore_errors() != (eff == 0):
            self.report("mode-disagrees-with-guard", where, "conditions %s: is_guard()=%r ignore_errors()=%r"
                        % (self.model, rt.is_guard(), rt.ignore_errors()))
        if rt.LinComb.ONE is not g:
            self.report("constants-not-scaled-by-guard", where, "LinComb.ONE is not the active guard")
        for k, mk in ((3, lambda: rt.LinComb.ONE * 3), (5, lambda: rt.LinComb._ensurelc(5))):
            c = mk()
            if c.value != k * eff or H.R.ev(c.lc) != (k * eff) % H.R.p:
                self.report("constant-not-k-times-guard", where, "constant %d inside %s has value %r / wire %r"
                            % (k, self.model, c.value, H.R.ev(c.lc)))

    # --- execution
    def run_items(self, items, arm=None):
        for it in items:
            self.run_item(it)

    def run_item(self, it):
        rt = H.rt
        kind = it[0]
        if kind == "op":
            self.check_state("op")
        elif kind == "raise":
            raise (UserBaseExc() if self.bexc else UserExc())
        elif kind == "valerr":
            # raises because of its operands when checking is on; proceeds under a false guard
            rt.PrivVal(3).assert_lt(rt.PrivVal(2))
            self.check_state("valerr-not-raised")
        elif kind == "try":
            before = H.triple()
            depth = len(self.model)
            try:
                self.run_items(it[1])
            except (Exception, UserBaseExc):  # noqa: BLE001 - the user's try/except
                del self.model[depth:]
            if H.triple() != before or any(a is not b for a, b in zip(H.triple(), before)):
                self.report("state-changed-across-caught-exception", "try", "triple after try/except differs")
            self.check_state("after-try")
        elif kind == "region":
            self.region(it[1], it[2])

    def region(self, c, items):
        rt = H.rt
        cond = self.make_cond(c)
        before = H.triple()
        eff_before = self.eff() if self.model else 1
        checking = not rt.ignore_errors()
        refuse = c in ("i0", "str") or (c == "s2" and checking)
        if self.real in ("ite-then", "ite-else", "ite-then-same", "ite-else-same") and c not in ("b0", "b1"):
            refuse = True if c not in ("i1", "i0") else None      # ints: no region at all (branch not called)
        entered = [False]
        secret = c in ("b1", "b0", "s1", "s0", "s2")
        val = {"b1": 1, "b0": 0, "s1": 1, "s0": 0, "s2": 2}.get(c)
        if self.real in ("ite-else", "else", "ite-else-same") and secret:
            val = 1 - val

        def body():
            entered[0] = True
            if secret:
                self.model.append(val if val in (0, 1) else 0)
            self.check_state("enter")
            self.run_items(items)
            if secret:
                self.model.pop()
            return rt.LinComb.ZERO

        depth = len(self.model)
        try:
            if self.real == "guarded":
                if self.sameobj and c in ("b1", "b0", "s1", "s0"):
                    if c not in self.gcache:
                        self.gcache[c] = rt.guarded(cond)
                    self.gcache[c](body)()
                else:
                    rt.guarded(cond)(body)()
            elif self.real == "ite-then":
                r = H.branching.if_then_else(cond, body, 7)
                if refuse is None:
                    return
            elif self.real == "ite-else":
                r = H.branching.if_then_else(cond, 7, body)
                if refuse is None:
                    return
            elif self.real in ("ite-then-same", "ite-else-same"):
                # the lazily evaluated arm returns the very object that is the other arm (x ** 1, +x, a cached value)
                same = rt.PrivVal(11)

                def body_same():
                    body()
                    return same
                if self.real == "ite-then-same":
                    r = H.branching.if_then_else(cond, body_same, same)
                else:
                    r = H.branching.if_then_else(cond, same, body_same)
                if refuse is None:
                    return
            elif self.real in ("if", "else", "while", "elif", "for"):
                if self.real == "for" and c not in ("b1", "b0", "s1", "s0"):
                    return          # a loop bound is a number: only 0/1-valued secret conditions map to it
                if self.real == "elif" and c not in ("b1", "b0"):
                    return          # _elif combines its condition with the negated if-condition: boolean-typed only
                self.block(cond, c, body)
        except (Exception, UserBaseExc) as ex:  # noqa: BLE001
            del self.model[depth:]
            now = H.triple()
            if any(a is not b for a, b in zip(now, before)):
                self.report("state-not-restored-on-exception" if entered[0] else "refused-enter-changed-state",
                            "region %s" % c, "%s: guard/ignore/ONE after the region differ from before (exception %s)"
                            % (c, type(ex).__name__))
            if not entered[0]:
                if refuse is False:
                    self.report("valid-condition-refused", "enter %s" % c, "%s: %s" % (type(ex).__name__, ex))
                self.check_state("refused")
                return              # the user catches the refusal and goes on
            self.check_state("leave-by-exception")
            raise
        now = H.triple()
        if any(a is not b for a, b in zip(now, before)):
            self.report("state-not-restored-on-return", "region %s" % c,
                        "%s: guard/ignore/ONE after the region differ from before" % c)
        if refuse and entered[0]:
            self.report("invalid-condition-accepted", "enter %s" % c, "body ran under condition %s" % c)
        self.check_state("leave")

    def block(self, cond, c, body):
        Br = H.branching
        ctx = self.ctx
        if self.real == "if":
            Br._if(cond, ctx=ctx)
            body()
            Br._endif(ctx=ctx)
        elif self.real == "else":
            # region is the else arm: effective condition is the negation
            Br._if(cond, ctx=ctx)
            Br._else(ctx=ctx)
            body()
            Br._endif(ctx=ctx)
        elif self.real == "elif":
            # region is the elif arm after an untaken if arm: effective condition = (not 0) & cond
            Br._if(H.boolean.PrivValBool(0), ctx=ctx)
            Br._elif(lambda: cond, ctx=ctx)
            body()
            Br._endif(ctx=ctx)
        elif self.real == "for":
            # one iteration of an oblivious for loop with secret bound: its guard is (0 != stop)
            stop = cond.lc if isinstance(cond, H.boolean.LinCombBool) else cond
            it = iter(Br._range(stop, max=1, ctx=ctx))
            next(it)
            body()
            try:
                next(it)
            except StopIteration:
                pass
            Br._endfor(ctx=ctx)
        elif self.real == "while":
            # the library identifies a loop by the caller's line number: nested loops must be
            # opened from different source lines
            d = len(ctx.stack)
            if d == 0:
                Br._while(cond, ctx=ctx)
            elif d == 1:
                Br._while(cond, ctx=ctx)
            elif d == 2:
                Br._while(cond, ctx=ctx)
            else:
                Br._while(cond, ctx=ctx)
            body()
            Br._endwhile(ctx=ctx)


REALS = ["guarded", "ite-then", "ite-else", "if", "while", "elif", "for", "ite-then-same", "ite-else-same"]


def run_tree(tree, real, p):
    """Execute one history; returns (violations, events, states)."""
    H.R.p = p
    H.reset(bitlength=3)
    viols = []

    def report(klass, where, text):
        viols.append(({"klass": klass, "real": real, "where": where.split(" ")[0]}, text))

    ex = Exec(real, report)
    real = ex.real
    if real in BLOCK_REALS:
        ex.ctx = H.branching.BranchingValues()
    try:
        ex.run_items(tree)
    except (UserExc, UserBaseExc):
        pass
    except Exception:  # noqa: BLE001 - value errors propagating to the top are part of the history
        pass
    ex.model = []
    if real in BLOCK_REALS:
        if ex.ctx.stack:
            # an exception escaped a block without its closing call: outside what the API can express
            ex.ctx.stack.clear()
            H.reset(bitlength=3)
            return viols, ex.events, ex.states, True
    if not H.triple_clean():
        report("state-not-clean-at-end", "end", "after the whole history: guard=%r ignore=%r" % (H.rt.guard, H.rt._ignore_errors))
    bad = H.R.unsatisfied()
    if bad:
        report("unsat", "end", "constraints %s not satisfied by the recorded witness" % bad[:3])
    return viols, ex.events, ex.states, False


def applicable(tree, real):
    """Block realisations: exceptions must not escape a region without its closing call."""
    if real in BLOCK_REALS:
        def ok(items, inside):
            for it in items:
                if it[0] in ("raise", "valerr") and inside:
                    return False
                if it[0] == "region":
                    if it[1] in ("s1", "s0", "s2", "str", "i0") and False:
                        return False
                    if not ok(it[2], True):
                        return False
                if it[0] == "try":
                    if not ok_try(it[1]):
                        return False
            return True

        def ok_try(items):
            # inside a try everything may raise, but a region containing an escaping raise is left open
            for it in items:
                if it[0] == "region" and escapes(it[2]):
                    return False
                if it[0] == "try" and not ok_try(it[1]):
                    return False
            return True
        return ok(tree, False)
    return True


def region_forests(k, depth, conds):
    """All forests of exactly k region nodes (no other events), nesting <= depth."""
    memo = {}

    def forests(n, d):
        if n == 0:
            return [()]
        if d == 0:
            return []
        key = (n, d)
        if key in memo:
            return memo[key]
        out = []
        for inner in range(0, n):              # first tree has 1 + inner nodes
            for sub in forests(inner, d - 1):
                for rest in forests(n - 1 - inner, d):
                    for c in conds:
                        out.append((("region", c, sub),) + rest)
        memo[key] = out
        return out
    return forests(k, depth)


def region_conds(items, out=None):
    out = [] if out is None else out
    for it in items:
        if it[0] == "region":
            if it[1] in ("b1", "b0", "s1", "s0"):
                out.append(it[1])
            region_conds(it[2], out)
        elif it[0] == "try":
            region_conds(it[1], out)
    return out


def _task(t):
    chunk, p = t
    st = {"histories": 0, "executions": 0, "transitions": 0, "skipped_open_block": 0}
    states = set()
    viols = {}
    for tree in chunk:
        st["histories"] += 1
        kinds = region_conds(tree)
        repeated = len(kinds) != len(set(kinds))
        has_raise = "raise" in tree_str(tree)
        for real in REALS + ["else"] + (["guarded-shared", "if-shared", "ite-then-shared", "guarded-sameobj-shared"] if repeated else []) + \
                (["guarded-bexc", "ite-then-bexc", "ite-else-bexc"] if has_raise else []):
            if not applicable(tree, real[:-7] if real.endswith("-shared") else (real[:-5] if real.endswith("-bexc") else real)):
                continue
            vs, ev, sts, skipped = run_tree(tree, real, p)
            if skipped:
                st["skipped_open_block"] += 1
                continue
            st["executions"] += 1
            st["transitions"] += ev
            states |= sts
            for sig, text in vs:
                sig = dict(sig, real=real)
                k = common.sig_hash(sig)
                if k not in viols:
                    viols[k] = {"sig": sig, "count": 0, "what": "history [%s] realised with %s: %s" % (tree_str(tree), real, text),
                                "case": {"tree": tree, "real": real, "p": p}}
                viols[k]["count"] += 1
    return {"st": st, "states": states, "viols": viols}


# ------------------------------------------------------------------------------------------------
# exit paths of the block API's own bookkeeping: a block that ends with an error raised BY THE LIBRARY
# (a variable introduced in one arm only, a conditional write to an undefined variable, ...) is an exit path too

MISUSE = ["new-var-if-not-else", "new-var-no-else", "spurious-var-in-else", "new-var-in-while", "new-var-in-for",
          "new-var-if-not-elif", "uncopyable-var-if", "uncopyable-var-while", "uncopyable-var-for"]
OUTERS = ["none", "guarded-b1", "guarded-b0", "if-b1", "if-b0", "while-b1"]


def run_misuse(kind, outer, cval, p):
    """-> list of (sig, text).  The block is executed inside `outer`; the library must raise, and right after
    the raise (caught inside the outer region) guard / ignore flag / ONE must be the outer region's again."""
    H.R.p = p
    H.reset(bitlength=8)
    rt, B, Br = H.rt, H.boolean, H.branching
    out = []
    ctx = Br.BranchingValues()
    ctx.x = rt.PrivVal(3)

    def block():
        c = B.PrivValBool(cval)
        before = H.triple()
        raised = None
        try:
            if kind == "new-var-if-not-else":
                Br._if(c, ctx=ctx)
                ctx.t = rt.PrivVal(5)
                Br._else(ctx=ctx)
                ctx.x = ctx.x + 1
                Br._endif(ctx=ctx)
            elif kind == "new-var-if-not-elif":
                Br._if(c, ctx=ctx)
                ctx.t = rt.PrivVal(5)
                Br._elif(lambda: B.PrivValBool(1), ctx=ctx)
                ctx.x = ctx.x + 1
                Br._endif(ctx=ctx)
            elif kind == "new-var-no-else":
                Br._if(c, ctx=ctx)
                ctx.t = rt.PrivVal(5)
                Br._endif(ctx=ctx)
            elif kind == "spurious-var-in-else":
                Br._if(c, ctx=ctx)
                ctx.x = ctx.x + 1
                Br._else(ctx=ctx)
                ctx.u = rt.PrivVal(6)
                Br._endif(ctx=ctx)
            elif kind == "new-var-in-while":
                Br._while(c, ctx=ctx)
                ctx.t = rt.PrivVal(5)
                Br._endwhile(ctx=ctx)
            elif kind.startswith("uncopyable-var"):
                # the context holds a value that cannot be snapshotted (a generator): entering a block raises
                # (TypeError from the snapshot) - and must leave the guard state as it was
                ctx.g = (i for i in range(3))
                try:
                    if kind.endswith("-if"):
                        Br._if(c, ctx=ctx)
                    elif kind.endswith("-while"):
                        Br._while(c, ctx=ctx)
                    else:
                        next(iter(Br._range(rt.PrivVal(cval), max=2, ctx=ctx)))
                except TypeError as ex_:
                    raise RuntimeError("snapshot failed: %s" % ex_)
                finally:
                    ctx.vals.pop("g", None)
            elif kind == "new-var-in-for":
                for _i in Br._range(rt.PrivVal(cval), max=1, ctx=ctx):
                    ctx.t = rt.PrivVal(5)
                Br._endfor(ctx=ctx)
        except RuntimeError as ex:
            raised = ex
        now = H.triple()
        sig = {"klass": "state-not-restored-after-block-error", "misuse": kind, "outer": outer}
        if raised is None:
            out.append((dict(sig, klass="block-error-not-raised"), "the block completed without the library's error"))
        elif any(a is not b for a, b in zip(now, before)):
            out.append((sig, "after the library raised %r the guard / ignore flag / ONE are not those in force before the block "
                        "(guard %r, ignore %r, ONE safe %r)" % (str(raised)[:50], rt.guard, rt._ignore_errors, rt.LinComb.ONE is rt.LinComb.ONE_SAFE)))

    try:
        if outer == "none":
            block()
        elif outer.startswith("guarded"):
            rt.guarded(B.PrivValBool(int(outer[-1])))(block)()
        elif outer.startswith("if"):
            octx = Br.BranchingValues()
            Br._if(B.PrivValBool(int(outer[-1])), ctx=octx)
            block()
            Br._endif(ctx=octx)
        else:
            octx = Br.BranchingValues()
            Br._while(B.PrivValBool(1), ctx=octx)
            block()
            Br._endwhile(ctx=octx)
    except Exception as ex:  # noqa: BLE001
        out.append(({"klass": "harness-misuse-outer-raised", "misuse": kind, "outer": outer}, "%s: %s" % (type(ex).__name__, ex)))
    if not H.triple_clean():
        out.append(({"klass": "state-not-clean-outside-regions", "misuse": kind, "outer": outer},
                    "after the outer region ended the guard state is not clean"))
    ctx.stack.clear()
    return out


def _init():
    H.bind(REC.BN128)


def run(ctx):
    from .. import xfeat
    xfeat.sweep(ctx, "C08")      # cross-feature compositions (pv/xfeat.py)
    budget, depth = (8, 3) if ctx.thorough else (7, 3)
    conds = CONDS
    all_trees = trees(budget, depth, conds)
    # deeper region-only histories (4 regions; thorough 5) for the shared-condition realisations
    extra = [t for k in ((4, 5) if ctx.thorough else (4,)) for t in region_forests(k, 3, ["b1", "b0", "s1", "s0"])]
    all_trees += [t for t in extra if len(region_conds(t)) != len(set(region_conds(t)))]
    # the seed only permutes the order
    random.Random(ctx.seed).shuffle(all_trees)
    nchunks = common.NCPU * 8
    chunks = [all_trees[i::nchunks] for i in range(nchunks)]
    p = [REC.BN128, REC.BLS12_381, REC.CURVE25519][ctx.seed % 3]
    results = common.pool_map(_task, [(c, p) for c in chunks if c], init=_init)
    agg, states = {}, set()
    for r in results:
        common.merge_counts(agg, r["st"])
        states |= r["states"]
        for v in r["viols"].values():
            ctx.violations.append({"sig": v["sig"], "case": v["case"], "what": v["what"] + " (x%d)" % v["count"]})
    _init()
    # deep nesting (beyond any fixed-size stack / cache): one chain of regions of depth 33 / 40 (thorough 70), all
    # conditions true or exactly one false at the outside / middle / inside, an op at every level on the way in and out
    ndeep = 0
    for depth in (33, 40) + ((70,) if ctx.thorough else ()):
        for falsepos in (None, 0, depth // 2, depth - 1):
            tree = (("op",),)
            for lvl in range(depth - 1, -1, -1):
                c = ("b0" if lvl % 2 == 0 else "s0") if lvl == falsepos else ("b1" if lvl % 2 == 0 else "s1")
                tree = (("op",), ("region", c, tree), ("op",))
            for real in ("guarded", "if", "ite-then", "guarded-shared", "guarded-sameobj-shared"):
                if real == "ite-then":
                    t2 = (("op",),)
                    for lvl in range(depth - 1, -1, -1):
                        t2 = (("op",), ("region", "b0" if lvl == falsepos else "b1", t2), ("op",))
                else:
                    t2 = tree
                vs, ev, sts, skipped = run_tree(t2, real, p)
                ndeep += 1
                agg["executions"] += 1
                agg["transitions"] += ev
                for sig, text in vs:
                    ctx.violation(dict(sig, real=real, deep=True), {"deep": [depth, falsepos, real], "p": p},
                                  "chain of %d nested regions (false condition at level %s) realised with %s: %s" % (depth, falsepos, real, text))
    agg["deep_histories"] = ndeep
    nmis = 0
    for kind in MISUSE:
        for outer in OUTERS:
            for cval in (0, 1):
                nmis += 1
                for sig, text in run_misuse(kind, outer, cval, p):
                    ctx.violation(dict(sig, cond=cval), {"misuse": [kind, outer, cval], "p": p},
                                  "block error %s (condition %d) inside %s: %s" % (kind, cval, outer, text))
    agg["block_error_histories"] = nmis
    from .. import e1
    e1.dedupe_violations(ctx)
    ctx.cov.update(agg)
    ctx.cov["states"] = len(states)
    ctx.cov["distinct_outcomes"] = len(states)
    ctx.cov["traces_validated_against_impl"] = agg["executions"]
    ctx.cov["bound"] = {"event_cost": budget, "nesting_depth": depth, "condition_kinds": conds, "realisations": REALS + ["else"]}
    ctx.cov["exhaustive"] = True
    ctx.cov["rule"] = ("history = well-nested tree of regions (cost 2 each; 8 kinds of condition incl. refused ones), "
                       "API ops, user exceptions, value errors and try/except blocks (cost 1 each), total cost <= bound, "
                       "nesting <= 3 (plus single chains of 33 / 40 / 70 nested regions); every history x 8 realisations (guarded, lazy then/else branch, _if, _else, _elif, _while, _range), plus three realisations in which equal conditions are ONE shared object; after every event the real (guard, ignore_errors, "
                       "LinComb.ONE, constants) is compared with the reference stack model (product of the enclosing "
                       "secret conditions); states = distinct (condition stack, guard-present, ignore flag, ONE-is-safe) "
                       "configurations reached; transitions = events executed; plus 6 kinds of error raised by the block API's own "
                       "bookkeeping at the end of a block x 6 enclosing contexts x condition 0/1: right after the raise the "
                       "state must be the enclosing region's")
    ctx.sample({"history": tree_str(all_trees[0]), "realisations": REALS + ["else"]})
    ctx.sample({"history": "b1{op s0{raise} op} op", "meaning": "exception propagates out of a false inner and a true outer region"})


def replay(case):
    if isinstance(case, dict) and case.get("xfeat"):
        from .. import xfeat
        return xfeat.replay(case, "C08")
    H.bind(case["p"])
    if "deep" in case:
        depth, falsepos, real = case["deep"]
        tree = (("op",),)
        for lvl in range(depth - 1, -1, -1):
            if real == "ite-then":
                c = "b0" if lvl == falsepos else "b1"
            else:
                c = ("b0" if lvl % 2 == 0 else "s0") if lvl == falsepos else ("b1" if lvl % 2 == 0 else "s1")
            tree = (("op",), ("region", c, tree), ("op",))
        vs, ev, sts, skipped = run_tree(tree, real, case["p"])
        return {"depth": depth, "false_at": falsepos, "real": real, "events": ev, "violations": [{"sig": s_, "what": w} for s_, w in vs]}
    if "misuse" in case:
        kind, outer, cval = case["misuse"]
        vs = run_misuse(kind, outer, cval, case["p"])
        return {"block_error": kind, "outer": outer, "condition": cval, "violations": [{"sig": s, "what": w} for s, w in vs]}

    def tup(x):
        return tuple(tup(y) for y in x) if isinstance(x, list) else x
    tree = tup(case["tree"])
    vs, ev, sts, skipped = run_tree(tree, case["real"], case["p"])
    return {"history": tree_str(tree), "real": case["real"], "events": ev,
            "violations": [{"sig": s, "what": w} for s, w in vs]}
