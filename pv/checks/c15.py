"""C15: secret-index array access reads and writes exactly one element.

Value level: breadth-first search over access histories (reads and writes with public / secret /
mixed indices inside and outside the bounds, constant and secret values) on 1-D and 2-D arrays with
constant / secret / mixed contents, each state compared with a Python list model after every
event.  Trace level: one canonical trace per history shape over all in-range index tuples.
Soundness (E2): contents and index pinned => read result and every element after a write are unique
over ALL witness choices; with error checking off an out-of-range index is unsatisfiable."""
import itertools
import random

from .. import common
from .. import e2
from .. import harness as H
from .. import recorder as REC
from .. import witness as W

BITLEN = 6


def shapes(level):
    out = []
    for L in (1, 2, 3, 4):
        for contents in ("const", "secret", "mixed"):
            out.append(("1d", (L,), contents))
    for dims in ((2, 2), (2, 3)):
        for contents in ("const", "secret"):
            out.append(("2d", dims, contents))
    out.append(("2d", (33, 2), "secret"))
    out.append(("2d", (2, 33), "const"))
    for contents in ("const", "secret"):
        out.append(("3d", (2, 2, 2), contents))
    # lengths beyond every small block / table size (32, 33, 40; thorough also 64, 65, 130)
    for L in (32, 33, 40) + ((64, 65, 130) if level >= 1 else ()):
        out.append(("1d", (L,), "secret" if L % 2 else "mixed"))
    # constant look-up tables of power-of-two length with REPEATED entries (T[i] == T[i+8]: table-folding shortcuts)
    for L in (16, 32) + ((64,) if level >= 1 else ()):
        out.append(("1d", (L,), "const-dup"))
    return out


def base_values(n):
    # deliberately NOT an affine function of the position (an under-constrained selector that only
    # satisfies linear relations would go unnoticed on contents like 3,4,5,6)
    return [(3, 7, 4, 9, 5, 8)[i % 6] + 11 * (i // 6) for i in range(n)]       # all distinct


def build_array(shape):
    from pysnark.array import Array
    kind, dims, contents = shape
    rt = H.rt

    def cell(i, v):
        if contents == "const" or (contents == "mixed" and i % 2 == 0):
            return v
        return rt.PrivVal(v)
    if kind == "1d" and contents == "const-dup":
        vals = [(3, 7, 4, 9, 5, 8, 6, 2)[i % 8] + (40 if i >= 24 else 0) for i in range(dims[0])]
        return Array(list(vals)), list(vals)
    if kind == "1d":
        vals = base_values(dims[0])
        return Array([cell(i, v) for i, v in enumerate(vals)]), list(vals)
    if kind == "3d":
        vals = base_values(8) + [6, 2]
        vals = [vals[i] + (i // 6) for i in range(8)]
        cube = [[[vals[4 * a + 2 * b + c] for c in range(2)] for b in range(2)] for a in range(2)]
        return (Array([Array([Array([cell(4 * a + 2 * b + c, cube[a][b][c]) for c in range(2)]) for b in range(2)]) for a in range(2)]),
                cube)
    R, C = dims
    vals = base_values(R * C)
    rows = [Array([cell(r * C + c, vals[r * C + c]) for c in range(C)]) for r in range(R)]
    return Array(rows), [vals[r * C:(r + 1) * C] for r in range(R)]


def events(shape, level):
    kind, dims, contents = shape
    ev = []
    if kind == "1d":
        L = dims[0]
        idxs = range(-1, L + 1) if (L <= 4 or contents == "const-dup") else sorted({-1, 0, 1, 7, 15, 16, 31, 32, 33, 63, 64, L - 2, L - 1, L} & set(range(-1, L + 1)))
        for i in idxs:
            for ik in ("S", "K"):
                ev.append(("read", (ik,), (i,)))
                for vk in ("K", "S"):
                    ev.append(("write", (ik,), (i,), vk))
    elif kind == "3d":
        import itertools
        triples = list(itertools.product((0, 1), repeat=3)) + [(-1, 0, 0), (2, 0, 1), (0, 2, 0), (1, -1, 1), (0, 1, 2), (1, 0, -1)]
        for idx in triples:
            for iks in itertools.product("SK", repeat=3):
                ev.append(("read", iks, idx))
            for iks in (("S", "S", "S"), ("K", "K", "K"), ("S", "K", "K"), ("K", "S", "K"), ("K", "K", "S")):
                ev.append(("write", iks, idx, "S"))
    else:
        R, C = dims
        ri = range(-1, R + 1) if R <= 4 else [-1, 0, 1, 31, 32, R]
        ci = range(-1, C + 1) if C <= 4 else [-1, 0, 1, 31, 32, C]
        for i in ri:
            for j in ci:
                for iks in (("S", "S"), ("S", "K"), ("K", "S"), ("K", "K")):
                    ev.append(("read", iks, (i, j)))
                    ev.append(("write", iks, (i, j), "S"))
                    if level >= 1 or iks == ("S", "S"):
                        ev.append(("write", iks, (i, j), "K"))
        # a row read at a secret index is stored into two rows (the same row object held in two places)
        for i in range(min(R, 3)):
            for j in range(min(R, 3)):
                for k in range(min(R, 3)):
                    if j != k:
                        ev.append(("rowdup", ("S",), (i,), (j, k)))
    return ev


class ModelIndexError(Exception):
    pass


def model_apply(model, e, wv):
    """Python-list model.  Secret indices must be within bounds; public ones follow list semantics."""
    kind = e[0]
    iks, idx = e[1], e[2]
    if kind == "rowdup":
        if not (0 <= idx[0] < len(model)):
            raise ModelIndexError()
        row = list(model[idx[0]])
        for j in e[3]:
            model[j] = list(row)       # "a write replaces exactly that element": rows do not alias
        return None
    tgt = model
    for d, (ik, i) in enumerate(zip(iks, idx)):
        n = len(tgt)
        if ik == "S":
            if not (0 <= i < n):
                raise ModelIndexError()
        else:
            if not (-n <= i < n):
                raise ModelIndexError()
        if d < len(idx) - 1:
            tgt = tgt[i]
    if kind == "read":
        return tgt[idx[-1]]
    tgt[idx[-1]] = wv
    return None


def flat_plain(arr):
    return H.plain(arr)


def run_history(shape, hist, p, want_trace=False, ign=False, share=False):
    """Execute a history from scratch; compare with the model after every event.
    Returns dict(problems=[...], state key, trace, raised_at)."""
    H.R.p = p
    H.reset(bitlength=BITLEN)
    rt = H.rt
    arr, model = build_array(shape)
    nv0, nc0 = len(H.R.vars), len(H.R.cons)
    problems = []
    raised_at = None
    steps = 0
    shared = {}

    def secret_index(i):
        # share=True: one index OBJECT per index value for the whole history (an index variable that the
        # program computes once and uses for several accesses)
        if not share:
            return rt.PrivVal(i)
        if i not in shared:
            shared[i] = rt.PrivVal(i)
        return shared[i]
    if ign:
        rt.ignore_errors(True)
    try:
        for k, e in enumerate(hist):
            iks, idx = e[1], e[2]
            index = tuple(secret_index(i) if ik == "S" else i for ik, i in zip(iks, idx))
            index = index[0] if len(index) == 1 else index
            wv = 7 + k
            m_exc = False
            try:
                mres = model_apply(model, e, wv)
            except ModelIndexError:
                m_exc = True
            try:
                if e[0] == "read":
                    res = arr[index]
                elif e[0] == "rowdup":
                    row = arr[index]
                    for j in e[3]:
                        arr[j] = row
                    res = None
                else:
                    arr[index] = rt.PrivVal(wv) if e[3] == "S" else wv
                    res = None
                l_exc = None
            except IndexError as ex:
                l_exc = ex
            steps += 1
            if ign:
                continue
            if m_exc != (l_exc is not None):
                problems.append(("index-error-mismatch", k, "model %s, library %s" % ("raises" if m_exc else "accepts",
                                                                                   "raises IndexError" if l_exc is not None else "accepts")))
                raised_at = k
                break
            if m_exc:
                raised_at = k
                break
            if e[0] == "read":
                got = H.plain(res)
                if got != mres:
                    problems.append(("read-wrong-element", k, "read returned %r, model %r" % (got, mres)))
                mm = H.value_wire_mismatches(res)
                if mm:
                    problems.append(("value!=wire", k, str(mm[0])))
            got_state = flat_plain(arr)
            if got_state != model:
                problems.append(("contents-differ-from-model", k, "array %r, model %r" % (got_state, model)))
                break
            mm = H.value_wire_mismatches(arr)
            if mm:
                problems.append(("value!=wire", k, str(mm[0])))
    except Exception as ex:  # noqa: BLE001
        problems.append(("unexpected-exception", len(hist), "%s: %s" % (type(ex).__name__, str(ex)[:100])))
    finally:
        rt._ignore_errors = False
    bad = H.R.unsatisfied()
    if bad and not ign:
        problems.append(("unsat", -1, "constraints %s not satisfied by the recorded witness" % bad[:3]))
    out = {"problems": problems, "raised_at": raised_at, "steps": steps, "arr": arr}
    if raised_at is None and not problems:
        out["state"] = repr(model)
        if want_trace:
            out["trace"] = hash(H.R.canonical_trace(nv0, nc0))
    return out


def shape_key(hist):
    """History with secret index VALUES abstracted away (public indices are part of the program)."""
    return tuple((e[0], e[1], tuple(i if ik == "K" else "*" for ik, i in zip(e[1], e[2]))) + tuple(e[3:]) for e in hist)


def _task(t):
    shape, depth, level, p = t
    st = {"histories": 0, "transitions": 0, "executions": 0, "states": 0, "trace_groups": 0, "e2_instances": 0, "nodes": 0,
          "undecided": 0}
    viols = {}

    def report(klass, hist, text):
        sig = {"klass": klass, "array": shape[0] + "/" + shape[2]}
        k = common.sig_hash(sig)
        if k not in viols:
            viols[k] = {"sig": sig, "count": 0, "what": "array %s, history %s: %s" % (shape, list(hist), text),
                        "case": {"shape": shape, "hist": list(hist), "p": p}}
        viols[k]["count"] += 1

    evs = events(shape, level)
    traces = {}
    seen = set()

    def search(share, depth_, evs_, prune):
        """Breadth-first over histories.  prune=True merges histories by canonical array contents (sound when
        every access uses fresh index objects); with shared index objects the access history is hidden state,
        so nothing is merged."""
        frontier = [()]
        for d in range(depth_):
            nxt = []
            for hist in frontier:
                for e in evs_:
                    h2 = hist + (e,)
                    r = run_history(shape, h2, p, want_trace=True, share=share)
                    st["histories"] += 1
                    st["executions"] += 1
                    st["transitions"] += r["steps"]
                    for klass, k, text in r["problems"]:
                        report(klass + ("/shared-index-objects" if share else ""), h2, "event %d: %s" % (k, text))
                    if "state" in r:
                        if not share:       # with shared objects the number of index variables depends on which values coincide
                            g = traces.setdefault(shape_key(h2), {})
                            g.setdefault(r["trace"], h2)
                        ids = [id(x) for x in r["arr"].arr]
                        key = (r["state"], tuple(type(x).__name__ for x in _cells(r["arr"])), tuple(ids.index(i) for i in ids))
                        if not prune:
                            nxt.append(h2)
                        elif key not in seen:
                            seen.add(key)
                            nxt.append(h2)
            frontier = nxt

    search(False, depth, evs, True)
    # shared index objects: in-range events only, no merging, depth 3 (2x2 and 1-D) / 2
    dims = shape[1]
    inr = [e for e in evs if all((0 <= i < d_) for i, d_ in zip(e[2], dims)) and not (e[0] == "write" and e[3] == "K") and e[0] != "rowdup"]
    if len(dims) == 2:
        inr = [e for e in inr if e[1] in (("S", "S"), ("K", "K"), ("S", "K"))]
    if len(dims) == 3:
        inr = [e for e in inr if e[1] in (("S", "S", "S"), ("S", "K", "K"), ("K", "S", "K"))]
    sdepth = 3 if (len(inr) <= 30 or level >= 1) else 2
    if len(dims) == 1 and dims[0] > 4:
        sdepth = 2 if level >= 1 else 1
    search(True, sdepth, inr, False)
    st["states"] = len(seen)
    for sk, g in traces.items():
        st["trace_groups"] += 1
        if len(g) > 1:
            hs = list(g.values())[:2]
            report("trace-depends-on-index-value", hs[0], "histories %s and %s (same shape) emit different constraint systems" % (list(hs[0]), list(hs[1])))
    # ---- soundness: all witness choices (1-D and 2-D, every event with at least one secret index)
    dims = shape[1]
    for e in evs:
        if "S" not in e[1] or e[0] == "rowdup" or len(dims) == 3:
            continue
        if any(ik == "K" and not (0 <= i < d) for ik, i, d in zip(e[1], e[2], dims)):
            continue                    # public index outside the bounds: plain IndexError, no system
        inb = all(0 <= i < d for i, d in zip(e[2], dims))
        for after_guard in (False, True):
            if after_guard and (len(dims) > 1 or e[0] == "write" and e[3] == "K"):
                continue
            inst = _instance(shape, e, p, ign=not inb, after_guard=after_guard)
            if inst is None:
                continue
            st["e2_instances"] += 1
            try:
                rel = {v for w in inst.wires for v in w if v != 0} if after_guard else None
                sols, undec, s = W.exact(inst.cons, inst.nvars, inst.fixed, p, relevant=rel, honest=inst.assignment if after_guard else None)
            except W.Capped:
                st["undecided"] += 1
                continue
            st["nodes"] += s["nodes"]
            if undec:
                st["undecided"] += 1
                continue
            hist = ((("read-in-untaken-branch",) + e[1:3],) if after_guard else ()) + (e,)
            if not inb:
                if sols:
                    report("out-of-range-index-provable", hist, "index %s outside an array of shape %s: the emitted system "
                           "has %d satisfying assignment families" % (list(e[2]), list(dims), len(sols)))
                continue
            for f in e2.classify(inst, sols):
                if f["klass"] == "undecided-dependent":
                    st["undecided"] += 1
                    continue
                report("access-not-unique", hist, "%s: wire #%d can be proven to be something else than the honest result"
                       % (f["klass"], f["wire_index"]))
    return {"st": st, "viols": viols}


def _cells(arr):
    out = []
    for x in arr.arr:
        if hasattr(x, "arr"):
            out += _cells(x)
        else:
            out.append(x)
    return out


def _instance(shape, e, p, ign, after_guard=False):
    H.R.p = p
    H.R.want_sites = True
    H.reset(bitlength=BITLEN)
    rt = H.rt
    arr, model = build_array(shape)
    idx = tuple(rt.PrivVal(i) if ik == "S" else i for ik, i in zip(e[1], e[2]))
    idx = idx[0] if len(idx) == 1 else idx
    wv = rt.PrivVal(9) if (e[0] == "write" and e[3] == "S") else 9
    if after_guard:
        # history: the same index OBJECT is first used for a read inside a branch that is not taken
        c = H.boolean.PrivValBool(0)
    fixed = {i: H.R.vars[i - 1][1] % p for i in range(1, len(H.R.vars) + 1)}
    if ign:
        rt.ignore_errors(True)
    try:
        if after_guard:
            def untaken():
                r = arr[idx]
                return r if isinstance(r, (rt.LinComb, H.boolean.LinCombBool)) else 0
            H.branching.if_then_else(c, untaken, 0)
        if e[0] == "read":
            res = arr[idx]
            wires = [dict(lc.lc.lc) for lc in H.secrets_in(res)]
        else:
            arr[idx] = wv
            wires = [dict(lc.lc.lc) for lc in H.secrets_in(arr)]
    except Exception:  # noqa: BLE001
        rt._ignore_errors = False
        H.R.want_sites = False
        return None
    rt._ignore_errors = False
    inst = e2.Instance()
    inst.p, inst.n = p, BITLEN
    inst.cons, inst.nvars, inst.fixed = list(H.R.cons), len(H.R.vars), fixed
    inst.sites = list(H.R.sites)
    inst.assignment = {i + 1: v[1] % p for i, v in enumerate(H.R.vars)}
    inst.wires = wires
    inst.honest = [W.eval_lc(w, inst.assignment, p) for w in wires]
    inst.status = "ok"
    H.R.want_sites = False
    return inst


def _init():
    H.bind(REC.BN128)


def run(ctx):
    from .. import xfeat
    xfeat.sweep(ctx, "C15")      # cross-feature compositions (pv/xfeat.py)
    xfeat.decl_sweep(ctx, "C15")
    xfeat.sound_sweep(ctx, only=lambda pr: any(xfeat.FEATURE[s[0]] in ("array", "linalg") or s[0] == "lazy_get" for s in pr))
    level = 1 if ctx.thorough else 0
    tasks = []
    p = [REC.BN128, REC.BLS12_381, REC.CURVE25519][ctx.seed % 3]
    for shape in shapes(level):
        if shape[0] == "1d" and shape[1][0] > 4:
            depth = 2 if ctx.thorough else 1
        elif shape[0] == "1d":
            depth = 4 if ctx.thorough else 3
        elif shape[0] == "3d":
            depth = 2
        elif max(shape[1]) > 4:
            depth = 1
        else:
            depth = 3 if ctx.thorough else 2
        tasks.append((shape, depth, level, p))
    tasks.sort(key=lambda t: -(t[0][1][0] * (t[0][1][1] if len(t[0][1]) > 1 else 1)) * t[1])
    results = common.pool_map(_task, tasks, init=_init)
    agg = {}
    for r in results:
        common.merge_counts(agg, r["st"])
        for v in r["viols"].values():
            ctx.violations.append({"sig": v["sig"], "case": v["case"], "what": v["what"] + " (x%d)" % v["count"]})
    from .. import e1
    e1.dedupe_violations(ctx)
    ctx.cov.update(agg)
    ctx.cov["distinct_outcomes"] = agg["states"]
    ctx.cov["traces_validated_against_impl"] = agg["executions"]
    ctx.cov["exhaustive"] = agg["undecided"] == 0
    ctx.cov["rule"] = ("arrays: 1-D length 1..4, 2-D 2x2 / 2x3 and 3-D 2x2x2 (all eight secret/public index combinations for reads) with constant / secret / mixed contents; events: read / "
                       "write (constant or secret value) at every index of [-1, len] with secret and public indices (all four "
                       "secret/public combinations for 2-D), and for 2-D storing a secretly read row into two other rows; breadth-first over histories to depth 3 (1-D) / 1-2 (2-D), "
                       "pruned on canonical array contents; model = nested Python lists; states = distinct array contents; "
                       "trace groups = history shapes whose in-range instances must share one trace; E2 on 1-D arrays of "
                       "length <= 3")
    ctx.sample({"array": ["1d", [3], "mixed"], "history": [["write", ["S"], [1], "S"], ["read", ["S"], [1]]]})


def replay(case):
    if isinstance(case, dict) and case.get("xfeat"):
        from .. import xfeat
        return xfeat.decl_replay(case) if case.get("decl") else (xfeat.sound_replay(case) if case.get("sound") else xfeat.replay(case, "C15"))
    H.bind(case["p"])

    def tup(x):
        return tuple(tup(y) for y in x) if isinstance(x, list) else x
    shape = tup(case["shape"])
    hist = tup(case["hist"])
    r = run_history(shape, hist, case["p"])
    return {"shape": shape, "history": hist, "violations": [{"klass": k, "event": e, "what": t} for k, e, t in r["problems"]]}
