"""Shared pieces of the E1-based checks (C01, C04, C05): program families per tier, replay."""
from .. import harness as H
from .. import opseq as E
from .. import ops as O
from .. import recorder as REC


def kinds_str(prog):
    return "".join(prog["kinds"])


def replay_case(case, oracle):
    """Re-execute one recorded case without the explorer and apply the oracle."""
    if case.get("real"):
        from .. import e1
        e1.bind_real_worker(case["real"])
    else:
        H.bind(case.get("p") or REC.BN128)
    if case.get("bfs"):
        from .. import bfs
        hist = tuple(_tuplify(e) for e in case["hist"])
        problems, outs, key, shape, too_big = bfs.run_history(tuple(case["init"]), hist, case["n"], case["p"])
        return {"registers": case["init"], "history": case["hist"], "outcomes": outs,
                "violations": [{"klass": pr[0], "event": list(pr[1]), "what": pr[2]} for pr in problems]}
    prog = case["prog"]
    prog = {"expr": _tuplify(prog["expr"]), "kinds": list(prog["kinds"])}
    o = E.execute(prog, tuple(case["vals"]), case["mode"], case["n"], True, case.get("p"), True)
    extra = {}
    viols = list(oracle(prog, tuple(case["vals"]), case["mode"], case["n"], case.get("p") or REC.BN128, o, extra) or ())
    for pend in extra.get("pending", []):
        viols.append(({"op": pend[0], "klass": "raises-in-domain", "exc": pend[2], "signs": pend[1]},
                      "raises %s (%s) inside the documented domain" % (pend[2], pend[5])))
    return {"program": O.expr_str(prog["expr"], prog["kinds"]), "inputs": case["vals"],
            "mode": case["mode"], "bitlength": case["n"],
            "outcome": {"status": o.status, "exc": o.exc, "msg": o.excmsg, "value": repr(o.value),
                        "unsatisfied": o.unsat, "value_wire_mismatch": o.mism},
            "violations": [{"sig": s, "what": w} for s, w in viols]}


def _tuplify(e):
    if isinstance(e, list):
        return tuple(_tuplify(x) for x in e)
    return e


def depth2_family(ctx):
    """Depth-2 compositions; the quick tier uses a sub-alphabet, the thorough tier all of it."""
    if ctx.thorough:
        return E.depth2_programs()
    # quick: every operator occurs as the inner operation (its result - also its error-path result -
    # is consumed by a second call) and as the outer one, but not every pair
    progs = E.depth2_programs(None, ["mul", "eq", "lt", "truediv", "xor"]) + \
        E.depth2_programs(["add", "mul", "floordiv", "lt", "eq", "and", "rshift"], ["sub", "mod", "le", "ne", "lshift", "pow"])
    seen, out = set(), []
    for pr in progs:
        k = (pr["expr"], tuple(pr["kinds"]))
        if k not in seen:
            seen.add(k)
            out.append(pr)
    return out


def real_backend_sweeps(ctx, oracle_path, modes):
    """The same depth-1 sweep against the REAL snarkjs / zkinterface backend modules (their own linear
    combination classes, field inverse and modulus): complete D(2) plus the huge-value lattice of the
    backend's own field (multiples and neighbours of p)."""
    from .. import e1
    for mod, p in e1.REAL_BACKENDS.items():
        e1.sweep(ctx, E.depth1_programs(include_fxp=True), [(2, p, E.D(2))] + ([(3, p, E.D(3))] if ctx.thorough else []), oracle_path, modes=modes, real=mod)
        e1.sweep(ctx, E.huge_programs(), [(16, p, E.huge_lattice(p))], oracle_path, modes=modes, real=mod)
