"""Shared pieces of the E1-based checks (C01, C04, C05): program families per tier, replay."""
from .. import harness as H
from .. import opseq as E
from .. import ops as O
from .. import recorder as REC


def kinds_str(prog):
    return "".join(prog["kinds"])


def replay_case(case, oracle):
    """Re-execute one recorded case without the explorer and apply the oracle."""
    if case.get("long_run"):
        r = _long_run_task((case["long_run"][0], case["long_run"][1], case["p"]))
        return {"long_run": case["long_run"], "result": {k: (list(v) if isinstance(v, tuple) else v) for k, v in r.items()},
                "violations": [k for k in ("unsat", "mism", "wrong") if r.get(k)]}
    if case.get("real"):
        from .. import e1
        e1.bind_real_worker(case["real"])
    else:
        H.bind(case.get("p") or REC.BN128)
    if case.get("bfs"):
        from .. import bfs
        hist = tuple(_tuplify(e) for e in case["hist"])
        problems, outs, key, shape, too_big = bfs.run_history(tuple(case["init"]), hist, case["n"], case["p"])
        return {"registers": case["init"], "history": case["hist"], "outcomes": outs,
                "violations": [{"klass": pr[0], "event": list(pr[1]), "what": pr[2]} for pr in problems]}
    prog = case["prog"]
    prog = {"expr": _tuplify(prog["expr"]), "kinds": list(prog["kinds"])}
    o = E.execute(prog, tuple(case["vals"]), case["mode"], case["n"], True, case.get("p"), True)
    extra = {}
    viols = list(oracle(prog, tuple(case["vals"]), case["mode"], case["n"], case.get("p") or REC.BN128, o, extra) or ())
    for pend in extra.get("pending", []):
        viols.append(({"op": pend[0], "klass": "raises-in-domain", "exc": pend[2], "signs": pend[1]},
                      "raises %s (%s) inside the documented domain" % (pend[2], pend[5])))
    return {"program": O.expr_str(prog["expr"], prog["kinds"]), "inputs": case["vals"],
            "mode": case["mode"], "bitlength": case["n"],
            "outcome": {"status": o.status, "exc": o.exc, "msg": o.excmsg, "value": repr(o.value),
                        "unsatisfied": o.unsat, "value_wire_mismatch": o.mism},
            "violations": [{"sig": s, "what": w} for s, w in viols]}


def _tuplify(e):
    if isinstance(e, list):
        return tuple(_tuplify(x) for x in e)
    return e


def _tobool_programs():
    """A value converted to boolean type INSIDE the program (legal for any value in dead code / with checking off) and
    then used as a factor, a selector or a logical operand."""
    I = lambda i: ("in", i)
    tb = ("op", "tobool", I(0))
    return [
        {"expr": ("op", "mul", tb, I(1)), "kinds": ["S", "S"]}, {"expr": ("op", "mul", I(1), tb), "kinds": ["S", "S"]},
        {"expr": ("op", "mul", tb, I(1)), "kinds": ["S", "K"]}, {"expr": ("op", "mul", tb, I(1)), "kinds": ["S", "B"]},
        {"expr": ("op", "if_then_else", tb, I(1), I(2)), "kinds": ["S", "S", "S"]},
        {"expr": ("op", "if_then_else", tb, I(1), I(2)), "kinds": ["S", "S", "K"]},
        {"expr": ("op", "and", tb, I(1)), "kinds": ["S", "B"]}, {"expr": ("op", "xor", I(1), tb), "kinds": ["S", "B"]},
        {"expr": ("op", "add", tb, I(1)), "kinds": ["S", "S"]}, {"expr": ("op", "eq", tb, I(1)), "kinds": ["S", "B"]},
        {"expr": ("op", "invert", tb), "kinds": ["S"]}, {"expr": ("op", "neg", tb), "kinds": ["S"]},
    ]


def depth2_family(ctx):
    """Depth-2 compositions; the quick tier uses a sub-alphabet, the thorough tier all of it."""
    if ctx.thorough:
        return E.depth2_programs() + _tobool_programs()
    # quick: every operator occurs as the inner operation (its result - also its error-path result -
    # is consumed by a second call) and as the outer one, but not every pair
    progs = E.depth2_programs(None, ["mul", "eq", "lt", "truediv", "xor"]) + \
        E.depth2_programs(["add", "mul", "floordiv", "lt", "eq", "and", "rshift"], ["sub", "mod", "le", "ne", "lshift", "pow"])
    progs = progs + _tobool_programs()
    seen, out = set(), []
    for pr in progs:
        k = (pr["expr"], tuple(pr["kinds"]))
        if k not in seen:
            seen.add(k)
            out.append(pr)
    return out


def real_backend_sweeps(ctx, oracle_path, modes):
    """The same depth-1 sweep against the REAL snarkjs / zkinterface backend modules (their own linear
    combination classes, field inverse and modulus): complete D(2) plus the huge-value lattice of the
    backend's own field (multiples and neighbours of p)."""
    from .. import e1
    for mod, p in e1.REAL_BACKENDS.items():
        e1.sweep(ctx, E.depth1_programs(include_fxp=True), [(2, p, E.D(2))] + ([(3, p, E.D(3))] if ctx.thorough else []), oracle_path, modes=modes, real=mod)
        e1.sweep(ctx, E.huge_programs(), [(16, p, E.huge_lattice(p))], oracle_path, modes=modes, real=mod)


def _long_run_task(t):
    """One LONG straight-line run (more than 65535 variables and constraints): counters, tables or caches that
    overflow / wrap / get recycled after many operations show up as an unsatisfied constraint, a value that differs
    from its wire, or a value that differs from the plain computation."""
    n_ops, bitlen, p = t
    H.bind(p)
    H.R.p = p
    H.reset(bitlength=bitlen)
    rt, B = H.rt, H.boolean
    out = {"unsat": None, "mism": None, "wrong": None, "ops": 0, "vars": 0, "cons": 0}
    acc, ref = rt.PrivVal(1), 1
    one = B.PrivValBool(1)
    for i in range(n_ops):
        c0 = len(H.R.cons)
        k = i % 7
        if i % 211 == 210:
            acc, ref = acc % 5 + 1, ref % 5 + 1
        elif i % 97 == 96:
            c = (acc == ref)
            acc = H.branching.if_then_else(c, acc, 0)
        elif i % 50 == 49:
            acc, ref = (acc + k) * one.lc - k, ref
        elif i % 3 == 0:
            acc, ref = acc * (one.lc + 0), ref
        else:
            acc, ref = (acc + k) - k, ref
        bad = H.R.unsatisfied(c0)
        if bad and out["unsat"] is None:
            out["unsat"] = (i, bad[:2])
        if acc.value != ref and out["wrong"] is None:
            out["wrong"] = (i, acc.value, ref)
        if i % 997 == 0 or i == n_ops - 1:
            mm = H.value_wire_mismatches(acc)
            if mm and out["mism"] is None:
                out["mism"] = (i, str(mm[0])[:120])
    out["ops"], out["vars"], out["cons"] = n_ops, len(H.R.vars), len(H.R.cons)
    return out


def long_run(ctx, klass):
    """klass: which of 'unsat' / 'mism' the calling check owns ('wrong' goes with C05)."""
    from .. import common
    n_ops = 600000 if ctx.thorough else 160000
    r = common.pool_map(_long_run_task, [(n_ops, 8, REC.BN128), (1000, 8, REC.BN128)], force_fork=True, procs=2)[0]
    ctx.cov["long_run"] = {"operations": r["ops"], "variables": r["vars"], "constraints": r["cons"]}
    ctx.cov["executions"] = ctx.cov.get("executions", 0) + 1
    ctx.cov["transitions"] = ctx.cov.get("transitions", 0) + r["ops"]
    if r.get(klass):
        text = {"unsat": "constraints %s emitted by operation #%d of a %d-operation run are not satisfied by the recorded witness",
                "mism": "after operation #%d of a %d-operation run the value differs from its wire: %s",
                "wrong": "after operation #%d of a %d-operation run the value is %s, the plain computation gives %s"}[klass]
        v = r[klass]
        args = {"unsat": (v[1], v[0], r["ops"]), "mism": (v[0], r["ops"], v[1]), "wrong": (v[0], r["ops"]) + tuple(v[1:])}[klass]
        ctx.violation({"klass": {"unsat": "unsat", "mism": "value!=wire", "wrong": "wrong-value"}[klass], "via": "long-run"},
                      {"long_run": [r["ops"], 8], "p": REC.BN128}, text % args)


def structured_sweep(ctx, oracle_path, modes, fxp=True):
    """Depth-1 programs on STRUCTURED interior values at the default bitlength 16 (thorough: also 8 and 32, all modes):
    every power of two and all-ones value, byte multiples, alternating bit patterns, small multipliers, each against a
    companion set (itself, its negative, neighbours, small numbers, range boundaries) - where special-case fast paths live."""
    from .. import e1
    cfgs = [(16, REC.BN128, E.Structured(16, full=ctx.thorough))]
    if ctx.thorough:
        cfgs += [(8, REC.BLS12_381, E.Structured(8, full=True)), (32, REC.CURVE25519, E.Structured(32, full=True))]
    quick_modes = tuple(m for m in ("plain", "g0") if m in modes)      # live code and dead code (fast paths forget the guard)
    if "c04" in oracle_path:
        quick_modes = ("plain",)
    e1.sweep(ctx, E.depth1_programs(include_fxp=fxp and ctx.thorough), cfgs, oracle_path, modes=modes if ctx.thorough else quick_modes)
