"""C14: fixed-point operations equal exact scaled-integer arithmetic (or raise).

E1 over fixed-point programs: every operator x every ordered pair of operand kinds with at least one
fixed-point operand x ALL representable values of a small interval x resolutions 0..3 x two
bitlengths, differential against a fractions.Fraction reference; plus the C01/C04 invariants."""
import itertools
import operator
import random
import warnings
from fractions import Fraction
from math import floor

from .. import common
from .. import harness as H
from .. import recorder as REC

BIN = ["add", "sub", "mul", "truediv", "floordiv", "mod", "divmod", "lt", "le", "eq", "ne", "gt", "ge", "ite1", "ite0"]
ASSERTS = ["assert_lt", "assert_le", "assert_eq", "assert_ne", "assert_gt", "assert_ge"]
IMPL = {"add": operator.add, "sub": operator.sub, "mul": operator.mul, "truediv": operator.truediv,
        "floordiv": operator.floordiv, "mod": operator.mod, "divmod": divmod, "lt": operator.lt, "le": operator.le,
        "eq": operator.eq, "ne": operator.ne, "gt": operator.gt, "ge": operator.ge,
        # oblivious selection between the two operands (condition 1 / 0): a fixed-point number either way
        "ite1": lambda x, y: H.branching.if_then_else(H.boolean.PrivValBool(1), x, y),
        "ite0": lambda x, y: H.branching.if_then_else(H.boolean.PrivValBool(0), x, y)}
KINDS = ["F", "S", "B", "i", "f"]     # fixed-point secret, integer secret, boolean secret, int, float


SPAN = 2


def values(r):
    """All multiples of 2^-r in [-SPAN-2^-r, SPAN+2^-r] as representation integers."""
    lim = SPAN * (1 << r) + 1
    return list(range(-lim, lim + 1))


BIG_INTS = [2 ** 53 + 1, 2 ** 53 - 1, -(2 ** 53 + 1), 3 ** 37, 2 ** 60 + 1, 2 ** 53]


def operand_values(kind, r):
    if SPAN == -2:
        # default resolutions (8, 6): fixed-point values k + d/2^r around small integers, against EVERY small int -20..20
        # (multipliers and divisors 3, 5, 6, 7, 10, 12 ... are where reciprocal / shift shortcuts live) and a few floats
        if kind == "F":
            return [k * (1 << r) + d for k in (-3, -1, 0, 1, 2, 3, 6, 7, 12) for d in (0, 1, (1 << r) // 2, (1 << r) - 1)]
        if kind == "B":
            return [0, 1]
        if kind == "f":
            return [(1 << r) // 2, 3 << r, 5 << (r - 2), -(7 << r)]
        return list(range(-20, 21))
    if SPAN < 0:
        # numbers beyond the 53-bit mantissa of a double (nothing may pass through a float)
        if kind == "F":
            return [v * (1 << r) + d for v in BIG_INTS[:4] for d in (0, 1)]
        if kind == "B":
            return [0, 1]
        if kind == "f":
            return [1 << r, 3 << r]
        return list(BIG_INTS)
    if kind == "F" or kind == "f":
        return values(r)                 # representation integers
    if kind == "B":
        return [0, 1]
    return [-3, -2, -1, 0, 1, 2, 3]      # integers (S, i)


def make(kind, v, r):
    rt, FX, B = H.rt, H.fixedpoint, H.boolean
    if kind == "F":
        return FX.PrivValFxp(v, False)   # v is the representation
    if kind == "f":
        return v / (1 << r)              # exactly representable float
    if kind == "S":
        return rt.PrivVal(v)
    if kind == "B":
        return B.PrivValBool(v)
    return v


def rep_of(kind, v, r):
    """Representation integer of an operand."""
    return v if kind in ("F", "f") else v * (1 << r)


def is_integer_operand(kind):
    return kind in ("S", "B", "i")


def reference(op, ka, a, kb, b, r):
    """Expected result: ("fxp", rep) | ("bool", 0/1) | ("pair", (rep, rep)) | None (no value: must raise
    or is outside the statement)."""
    ra, rb = rep_of(ka, a, r), rep_of(kb, b, r)
    one = 1 << r
    if op == "add":
        return ("fxp", ra + rb)
    if op == "sub":
        return ("fxp", ra - rb)
    if op == "mul":
        if is_integer_operand(kb):
            return ("fxp", ra * b)
        if is_integer_operand(ka):
            return ("fxp", a * rb)
        return ("fxp", (ra * rb) // one)
    if op == "truediv":
        if rb == 0:
            return None
        return ("fxp", (ra * one) // rb)
    if op in ("floordiv", "mod", "divmod"):
        if rb == 0:
            return None
        q, m = divmod(Fraction(ra, one), Fraction(rb, one))
        qq, mm = int(q) * one, int(m * one)
        return {"floordiv": ("fxp", qq), "mod": ("fxp", mm), "divmod": ("pair", (qq, mm))}[op]
    if op in ("ite1", "ite0"):
        return ("fxp", ra if op == "ite1" else rb)
    cmpf = {"lt": operator.lt, "le": operator.le, "eq": operator.eq, "ne": operator.ne, "gt": operator.gt, "ge": operator.ge}
    if op in cmpf:
        return ("bool", int(cmpf[op](ra, rb)))
    raise ValueError(op)


def observe(res):
    FX, B, rt = H.fixedpoint, H.boolean, H.rt
    if isinstance(res, FX.LinCombFxp):
        return ("fxp", res.lc.value)
    if isinstance(res, B.LinCombBool):
        return ("bool", res.lc.value)
    if isinstance(res, tuple) and len(res) == 2 and all(isinstance(x, FX.LinCombFxp) for x in res):
        return ("pair", (res[0].lc.value, res[1].lc.value))
    if isinstance(res, rt.LinComb):
        return ("int", res.value)
    return ("other", repr(res))


def _task(t):
    global SPAN
    op, ka, kb, r, n, p, SPAN = t
    st = {"executions": 0, "transitions": 0, "compared": 0, "raised": 0}
    viols = {}
    outcomes = set()
    rt, FX = H.rt, H.fixedpoint

    def report(klass, a, b, text, extra=None):
        sig = {"op": op, "kinds": ka + kb, "klass": klass}
        if extra:
            sig.update(extra)
        k = common.sig_hash(sig)
        if k not in viols:
            viols[k] = {"sig": sig, "count": 0,
                        "what": "%s(%s %s, %s %s) at resolution %d, bitlength %d: %s" % (
                            op, ka, Fraction(rep_of(ka, a, r), 1 << r), kb, Fraction(rep_of(kb, b, r), 1 << r), r, n, text),
                        "case": {"op": op, "ka": ka, "kb": kb, "a": a, "b": b, "r": r, "n": n, "p": p, "span": SPAN}}
        viols[k]["count"] += 1

    for a in operand_values(ka, r):
        for b in operand_values(kb, r):
            H.R.p = p
            H.reset(bitlength=n, resolution=r)
            x, y = make(ka, a, r), make(kb, b, r)
            st["executions"] += 1
            try:
                if op in IMPL:
                    res = IMPL[op](x, y)
                elif op in ASSERTS:
                    res = getattr(x, op)(y)
                else:
                    raise ValueError(op)
            except Exception as ex:  # noqa: BLE001
                st["raised"] += 1
                outcomes.add(("raise", type(ex).__name__))
                if H.R.unsatisfied():
                    report("unsat-left-by-aborted-call", a, b, "constraints emitted before the raise are not satisfied")
                continue
            st["transitions"] += 1
            bad = H.R.unsatisfied()
            if bad:
                report("unsat", a, b, "constraint %s not satisfied by the recorded witness" % bad[:2])
            mm = H.value_wire_mismatches(res)
            if mm:
                report("value!=wire", a, b, "value %s, wire %s" % mm[0])
            if op in ASSERTS:
                ra, rb = rep_of(ka, a, r), rep_of(kb, b, r)
                rel = {"assert_lt": ra < rb, "assert_le": ra <= rb, "assert_eq": ra == rb, "assert_ne": ra != rb,
                       "assert_gt": ra > rb, "assert_ge": ra >= rb}[op]
                st["compared"] += 1
                outcomes.add(("accepted", rel))
                if not rel:
                    report("assertion-accepts-false-relation", a, b, "accepted although the relation is false")
                continue
            want = reference(op, ka, a, kb, b, r)
            got = observe(res)
            outcomes.add(got)
            if want is None:
                report("value-where-none-exists", a, b, "returned %s although the divisor is zero" % (got,))
                continue
            st["compared"] += 1
            if got[0] == "int" and want[0] == "fxp":
                # an integer-typed result where a fixed-point number is meant: compare as numbers
                got = ("fxp", got[1] * (1 << r)) if False else got
            if got != want:
                off = None
                if got[0] == want[0] == "bool":
                    off = "bool"
                report("wrong-value", a, b, "returned %s, exact scaled-integer arithmetic gives %s" % (got, want),
                       {"got_type": got[0]})
    return {"st": st, "viols": viols, "outcomes": len(outcomes)}


def unary_task(t):
    global SPAN
    r, n, p, SPAN = t
    st = {"executions": 0, "transitions": 0, "compared": 0, "raised": 0}
    viols = {}
    FX = H.fixedpoint

    def report(klass, op, a, text):
        sig = {"op": op, "klass": klass}
        k = common.sig_hash(sig)
        if k not in viols:
            viols[k] = {"sig": sig, "count": 0, "what": "%s(%s) at resolution %d: %s" % (op, Fraction(a, 1 << r), r, text),
                        "case": {"op": op, "a": a, "r": r, "n": n, "p": p, "unary": True}}
        viols[k]["count"] += 1

    for a in values(r):
        for op in ("neg", "val", "pos", "assert_range", "construct_float", "construct_int", "lc_scaled", "pow0", "pow1", "pow2", "pow3"):
            H.R.p = p
            H.reset(bitlength=n, resolution=r)
            st["executions"] += 1
            try:
                x = FX.PrivValFxp(a, False)
                if op == "neg":
                    got, want = (-x).lc.value, -a
                elif op == "pos":
                    got, want = (+x).lc.value, a
                elif op == "val":
                    got, want = x.val(), a / (1 << r)
                elif op.startswith("pow"):
                    # x ** k for a public k >= 0: 1.0, x, then repeated fixed-point products x * x**(k-1);
                    # the library reports the representation reduced modulo p, so compare modulo p
                    k = int(op[3:])
                    want = 1 << r
                    for _ in range(k):
                        want = a if _ == 0 else (a * want) // (1 << r)
                    res = x ** k
                    got = res.lc.value
                    if (got - want) % p == 0:
                        got = want
                    mm = H.value_wire_mismatches(res)
                    if mm:
                        report("value!=wire", op, a, "value %s, wire %s" % mm[0])
                elif op == "construct_float":
                    got, want = FX.PrivValFxp(a / (1 << r)).lc.value, a
                elif op == "construct_int":
                    if a % (1 << r):
                        continue
                    got, want = FX.PubValFxp(a >> r).lc.value, a
                elif op == "lc_scaled":
                    if a % (1 << r):
                        continue
                    got, want = FX.LinCombFxp(H.rt.PrivVal(a >> r)).lc.value, a
                else:
                    lo, hi = -(1 << r), (1 << r)        # [-1.0, 1.0)
                    x.assert_range(-1, 1)
                    got, want = True, -(1 << r) <= a < (1 << r)
            except Exception:  # noqa: BLE001
                st["raised"] += 1
                continue
            st["transitions"] += 1
            st["compared"] += 1
            if got != want:
                report("wrong-value", op, a, "got %r, expected %r" % (got, want))
            if H.R.unsatisfied():
                report("unsat", op, a, "constraints not satisfied")
    return {"st": st, "viols": viols, "outcomes": 0}


def readback_children(ctx):
    """val() of fixed-point numbers on the REAL nobackend (placeholder modulus 10000) and snarkjs modules, fresh
    interpreters: the number read back is the represented one."""
    import json as _json
    import os as _os
    import subprocess as _sp
    child = _os.path.join(common.VERIF, "pv", "children", "minimal_child.py")
    for backend in ("nobackend", "snarkjs"):
        d = __import__("tempfile").mkdtemp(prefix="pv-c14-")
        try:
            r = _sp.run([common.PY, child, _json.dumps({"scenario": "real-backend-fxp-readback", "tree": common.TREE, "backend": backend})],
                        capture_output=True, text=True, cwd=d, env=dict(_os.environ, PYTHONHASHSEED="0"), start_new_session=True, timeout=120)
        finally:
            __import__("shutil").rmtree(d, True)
        rep = None
        for ln in r.stdout.splitlines():
            if ln.startswith("@@"):
                rep = _json.loads(ln[2:])
        if rep is None or rep.get("backend_name") != backend:
            ctx.harness_errors.append("fixed-point read-back child (%s) failed: %s" % (backend, r.stderr[-300:]))
            continue
        ctx.add("readback_values", len(rep["rows"]))
        for row in rep["rows"]:
            if "error" in row or row["val"] != row["v"]:
                ctx.violation({"klass": "wrong-value", "op": "val", "backend": backend, "how": row["how"]}, {"readback": backend},
                              "[real backend %s] %s fixed-point %r reads back as %s" % (backend, row["how"], row["v"], row.get("val", row.get("error"))))


def _init():
    H.bind(REC.BN128)
    warnings.simplefilter("ignore")


def _dispatch(t):
    return unary_task(t[1:]) if t[0] == "unary" else _task(t)


def run(ctx):
    from .. import xfeat
    xfeat.sweep(ctx, "C14")      # cross-feature compositions (pv/xfeat.py)
    tasks = []
    span = 4 if ctx.thorough else 2
    for r in [0, 1, 2, 3]:
        for n in (2 * r + 4 + (2 if span == 4 else 0), 2 * r + 6 + (2 if span == 4 else 0)):
            p = [REC.BN128, REC.BLS12_381, REC.CURVE25519][(r + ctx.seed) % 3]
            for op in BIN + ASSERTS:
                for ka in KINDS:
                    for kb in KINDS:
                        if "F" not in (ka, kb):
                            continue
                        if op in ASSERTS and ka != "F":
                            continue
                        tasks.append((op, ka, kb, r, n, p, span))
            tasks.append(("unary", r, n, p, span))
    # big operands: default resolution 8 (and 2), bitlength 90, integers around and above 2^53
    for r in (8, 2) if not ctx.thorough else (8, 2, 16):
        p = REC.BN128
        for op in BIN + ASSERTS:
            for ka, kb in (("F", "i"), ("i", "F"), ("F", "F"), ("F", "S"), ("S", "F")):
                if op in ASSERTS and ka != "F":
                    continue
                tasks.append((op, ka, kb, r, 90, p, -1))
    for r in (8, 6) if not ctx.thorough else (8, 6, 7, 10, 16):
        for op in BIN + ASSERTS:
            for ka, kb in (("F", "i"), ("i", "F"), ("F", "S"), ("S", "F"), ("F", "f")):
                if op in ASSERTS and ka != "F":
                    continue
                tasks.append((op, ka, kb, r, 2 * r + 12, REC.BN128, -2))
    random.Random(ctx.seed).shuffle(tasks)
    results = common.pool_map(_dispatch, tasks, init=_init)
    agg, nout = {}, 0
    for r_ in results:
        common.merge_counts(agg, r_["st"])
        nout += r_["outcomes"]
        for v in r_["viols"].values():
            ctx.violations.append({"sig": v["sig"], "case": v["case"], "what": v["what"] + " (x%d)" % v["count"]})
    readback_children(ctx)
    from .. import e1
    e1.dedupe_violations(ctx)
    ctx.cov.update(agg)
    ctx.cov["programs"] = len(tasks)
    ctx.cov["states"] = nout
    ctx.cov["distinct_outcomes"] = nout
    ctx.cov["traces_validated_against_impl"] = agg["compared"]
    ctx.cov["exhaustive"] = True
    ctx.cov["rule"] = ("13 binary operators + oblivious selection (condition 1 / 0) + 6 assertions x ordered operand-kind pairs over {fixed-point secret, integer "
                       "secret, boolean secret, int, float} with at least one fixed-point operand x ALL multiples of 2^-r in "
                       "[-2-2^-r, 2+2^-r] (integers -3..3) x resolutions x bitlengths, operands around and above 2^53 at resolution 8 / 2 with bitlength 90, and at the default resolution 8 (and 6) fixed-point values around small integers against every int -20..20; result representation compared with "
                       "exact Fraction arithmetic (floor(a*b/2^r), floor(a*2^r/b), Python // and % on the represented "
                       "numbers, order for comparisons), raising always accepted; unary: neg, pos, val(), constructors, "
                       "assert_range, x ** k for k = 0..3; states = distinct observed outcomes per task summed")
    ctx.sample({"op": "lt", "kinds": "SF", "a": 1, "b": "5/4", "resolution": 2, "expected": 1})


class _Ctx:
    def __init__(self):
        self.cov, self.harness_errors, self.viols = {}, [], []

    def violation(self, sig, case, what):
        self.viols.append({"sig": sig, "what": what})

    def add(self, k, n=1):
        self.cov[k] = self.cov.get(k, 0) + n


def replay(case):
    if isinstance(case, dict) and case.get("xfeat"):
        from .. import xfeat
        return xfeat.replay(case, "C14")
    if "readback" in case:
        c = _Ctx()
        readback_children(c)
        return {"scenario": "fixed-point read-back on real backends", "violations": c.viols, "harness_errors": c.harness_errors}
    H.bind(case["p"])
    warnings.simplefilter("ignore")
    if case.get("unary"):
        r = unary_task((case["r"], case["n"], case["p"], case.get("span", 2)))
    else:
        r = _task((case["op"], case["ka"], case["kb"], case["r"], case["n"], case["p"], case.get("span", 2)))
    return {"case": case, "violations": [{"sig": v["sig"], "what": v["what"]} for v in r["viols"].values()]}
