"""C07: a false guard makes code inert; a true guard is transparent.

Bodies = every depth-1 program of the E1 alphabet (operators, assertions, conversions, selection),
operands over the complete interval D(n) INCLUDING values invalid for the body; realised through
guarded(g)(body)() with integer-typed and boolean-typed guards, two nested guards (all four value
combinations) and the lazily evaluated branches of if_then_else (then- and else-position).
Effective guard 0: no exception for a well-typed body, the whole system satisfied by the recorded
witness, and (witness-space enumeration) the enclosing selection uniquely yields the other branch.
Effective guard 1: same value / same exception class as the unguarded call, and the same set of
provable results (false assertions stay unprovable)."""
import itertools
import random

from .. import common
from .. import e2
from .. import harness as H
from .. import opseq as E
from .. import ops as O
from .. import recorder as REC
from .. import witness as W

OTHER = 42
REALISATIONS = [
    ("guarded-int", (0,)), ("guarded-int", (1,)),
    ("guarded-bool", (0,)), ("guarded-bool", (1,)),
    ("nested", (0, 0)), ("nested", (0, 1)), ("nested", (1, 0)), ("nested", (1, 1)),
    ("ite-then", (0,)), ("ite-then", (1,)),
    ("ite-else", (0,)), ("ite-else", (1,)),
    ("repeat", (1,)),       # history: the body first runs under a FALSE guard, then again in live code (true guard) on the same operands
]


class NotASecret(Exception):
    """The body returned a plain Python object (e.g. a float computed by Python itself from plain
    ints): nothing of the library is selected, the instance is skipped."""


def _pick(res, operands):
    """What a lazily evaluated branch returns: the body's value (first component of tuples); for
    assertions (None) the first operand."""
    if isinstance(res, (tuple, list)):
        res = res[0]
    if res is None:
        res = operands[0]
    if isinstance(res, float):
        raise NotASecret()
    return res


class Run:
    __slots__ = ("status", "exc", "msg", "value", "unsat", "mism", "triple_ok", "body_start", "res", "pin_end")


def run_guarded(prog, vec, n, p, real, guards, ign=False, sites=False):
    """Execute body under a realisation on a clean state; returns Run and leaves the trace in H.R."""
    H.R.p = p
    H.R.want_sites = sites
    H.reset(bitlength=n, resolution=1)
    rt, B = H.rt, H.boolean
    operands = [E.make_operand(k, v) for k, v in zip(prog["kinds"], vec)]
    out = E.Outcome()
    out.unsat, out.mism, out.calls, out.steps = [], [], 0, None
    out.mutated = None
    r = Run()
    r.body_start = None
    r.res = None
    r.pin_end = None

    def pinned():
        # everything created so far (operands and the CONDITIONS) is given; whatever the library creates from here on -
        # including the wires of nested guards - is the prover's choice in the witness-space part
        r.pin_end = len(H.R.vars)

    def body():
        r.body_start = len(H.R.vars)
        if ign:
            # error checking switched off by the user inside the region
            rt.ignore_errors(True)
        return E._apply(prog["expr"], operands, out)

    try:
        if real == "none":
            res = body()
        elif real == "guarded-int":
            c_ = rt.PrivVal(guards[0])
            pinned()
            res = rt.guarded(c_)(body)()
        elif real == "guarded-bool":
            c_ = B.PrivValBool(guards[0])
            pinned()
            res = rt.guarded(c_)(body)()
        elif real == "pre-ign":
            # the program runs with error checking switched off GLOBALLY (before the region is entered)
            rt.ignore_errors(True)
            c_ = B.PrivValBool(guards[0])
            pinned()
            res = rt.guarded(c_)(body)()
        elif real == "nested":
            go, gi = B.PrivValBool(guards[0]), B.PrivValBool(guards[1])
            pinned()
            res = rt.guarded(go)(lambda: rt.guarded(gi)(body)())()
        elif real == "ite-then":
            c, other = B.PrivValBool(guards[0]), rt.PrivVal(OTHER)
            res = H.branching.if_then_else(c, lambda: _pick(body(), operands), other)
        elif real == "ite-else":
            c, other = B.PrivValBool(1 - guards[0]), rt.PrivVal(OTHER)
            res = H.branching.if_then_else(c, other, lambda: _pick(body(), operands))
        elif real == "repeat":
            def dead():
                # a raise of the dead body is judged by the false-guard realisations; here the program goes
                # on (as after a user's try/except) and the live repetition is what is compared
                try:
                    body()
                except Exception:  # noqa: BLE001
                    pass
            rt.guarded(B.PrivValBool(0))(dead)()
            res = rt.guarded(B.PrivValBool(1))(body)()
        else:
            raise ValueError(real)
        r.status, r.exc, r.msg = "ok", None, None
        r.value = H.plain(res)
        r.res = res
        r.mism = H.value_wire_mismatches(res) + [m[2:] for m in out.mism]
    except Exception as ex:  # noqa: BLE001
        r.status, r.exc, r.msg, r.value, r.mism = "raise", type(ex).__name__, str(ex)[:100], None, []
    finally:
        if real == "pre-ign":
            rt._ignore_errors = False
        if ign:
            rt._ignore_errors = False if real == "none" else rt._ignore_errors
    r.unsat = H.R.unsatisfied()
    r.triple_ok = H.triple_clean() or (ign and real == "none")
    H.R.want_sites = False
    return r


def eff(guards):
    return int(all(guards))


def body_value(prog, u):
    """Unguarded value in the shape the realisation returns."""
    return u.value


def _inst_from_trace(r, p, n):
    inst = e2.Instance()
    inst.p, inst.n = p, n
    inst.cons = list(H.R.cons)
    inst.nvars = len(H.R.vars)
    inst.fixed = {i: H.R.vars[i - 1][1] % p for i in range(1, (r.pin_end if r.pin_end is not None else (r.body_start or 0)) + 1)}
    inst.sites = list(H.R.sites)
    inst.assignment = {i + 1: v[1] % p for i, v in enumerate(H.R.vars)}
    inst.wires = [dict(lc.lc.lc) for lc in H.secrets_in(r.res)] if r.status == "ok" else []
    inst.honest = [W.eval_lc(w, inst.assignment, p) for w in inst.wires]
    inst.status = r.status
    return inst


def result_set(inst, st):
    """Set of provable result tuples (or the marker FREE) over ALL satisfying assignments."""
    try:
        rel = {v for w in inst.wires for v in w if v != 0}
        sols, undec, s = W.exact(inst.cons, inst.nvars, inst.fixed, inst.p, relevant=rel, honest=inst.assignment)
    except W.Capped:
        st["capped"] += 1
        return None
    st["nodes"] += s["nodes"]
    if undec:
        st["undecided"] += 1
        return None
    out = set()
    red = W.reduce_system(inst.cons, inst.p)
    for sol in sols:
        vals = []
        for w in inst.wires:
            aw = W.affine_wire(w, sol, red, inst.p)
            if aw is None:
                st["undecided"] += 1
                return None
            vals.append("FREE" if aw[1] else aw[0])
        out.add("FREE" if "FREE" in vals else tuple(vals))
    return out


def _task(t):
    prog, n, p, vals, do_e2 = t
    name = O.expr_str(prog["expr"], prog["kinds"])
    kinds = prog["kinds"]
    opname = prog["expr"][1]
    const_idx = [i for i, k in enumerate(kinds) if k == "K"]
    st = {"executions": 0, "transitions": 0, "guard0_runs": 0, "guard1_runs": 0, "ill_typed_groups": 0,
          "groups": 0, "e2_instances": 0, "nodes": 0, "undecided": 0, "capped": 0, "distinct": set()}
    viols = {}

    def report(klass, real, guards, vec, text, extra=None):
        sig = {"op": opname, "kinds": "".join(kinds), "klass": klass, "real": real, "guards": "".join(map(str, guards))}
        if extra:
            sig.update(extra)
        k = common.sig_hash(sig)
        if k not in viols:
            viols[k] = {"sig": sig, "count": 0, "what": "%s on %s (bitlength %d) under %s guards=%s: %s"
                        % (name, list(vec), n, real, list(guards), text),
                        "case": {"prog": prog, "vals": list(vec), "n": n, "p": p, "real": real, "guards": list(guards)}}
        viols[k]["count"] += 1

    groups = {}
    for vec in E.input_vectors(prog, vals):
        groups.setdefault(tuple(vec[i] for i in const_idx), []).append(vec)
    for key, vecs in groups.items():
        st["groups"] += 1
        unguarded = {}
        for vec in vecs:
            u = run_guarded(prog, vec, n, p, "none", ())
            st["executions"] += 1
            unguarded[vec] = (u.status, u.exc, u.value)
        uexcs = {x for s_, x, _ in unguarded.values() if s_ != "ok"}
        well_typed = any(s_ == "ok" for s_, _, _ in unguarded.values())
        if not well_typed:
            st["ill_typed_groups"] += 1
        pend_raise = {}
        # error checking switched off globally BEFORE a region with a TRUE guard is entered: the body behaves as the same
        # body does with checking off and no guard (in particular it does not start raising again)
        for vec in vecs:
            ui = run_guarded(prog, vec, n, p, "none", (), ign=True)
            gi_ = run_guarded(prog, vec, n, p, "pre-ign", (1,))
            st["executions"] += 2
            if gi_.exc == "NotASecret" or ui.exc == "NotASecret":
                continue
            if (gi_.status, gi_.exc) != (ui.status, ui.exc):
                report("true-guard-not-transparent", "pre-ign", (1,), vec,
                       "with error checking switched off globally, the body under a true guard gives %s/%s, without a guard %s/%s"
                       % (gi_.status, gi_.exc, ui.status, ui.exc))
        for vec in vecs:
            us, uexc, uval = unguarded[vec]
            for real, guards in REALISATIONS:
                r = run_guarded(prog, vec, n, p, real, guards)
                if r.exc == "NotASecret":
                    continue
                st["executions"] += 1
                st["transitions"] += 1 + len(guards)
                st["distinct"].add(hash((real, guards, r.status, r.exc, repr(r.value))))
                e = eff(guards)
                if not r.triple_ok:
                    report("guard-state-leak", real, guards, vec, "guard state not restored after the region")
                if e == 0:
                    st["guard0_runs"] += 1
                    if r.status == "raise":
                        pend_raise.setdefault((real, guards), []).append((vec, r.exc, r.msg))
                        continue
                    if r.unsat:
                        report("unsat-under-false-guard", real, guards, vec,
                               "constraints %s not satisfied by the recorded witness" % r.unsat[:3])
                    if r.mism:
                        report("value!=wire-under-false-guard", real, guards, vec, "value/wire mismatch %s" % (r.mism[:1],))
                    if real.startswith("ite") and r.value not in (OTHER, ("fxp", OTHER * 2)):    # fixed-point branch: the other value is re-scaled (resolution 1)
                        report("selection-wrong-under-false-guard", real, guards, vec,
                               "selection returned %r instead of the other branch's %d" % (r.value, OTHER))
                else:
                    st["guard1_runs"] += 1
                    want = uval
                    if real.startswith("ite") and us == "ok":
                        w = uval[0] if (isinstance(uval, (tuple, list)) and not (len(uval) == 2 and uval[0] == "fxp")) else uval
                        want = (("fxp", vec[0]) if kinds[0] == "F" else vec[0]) if w is None else w
                    if (r.status, r.exc) != (us, uexc):
                        report("true-guard-not-transparent", real, guards, vec,
                               "outcome %s/%s differs from the unguarded outcome %s/%s" % (r.status, r.exc, us, uexc))
                    elif us == "ok" and r.value != want:
                        report("true-guard-not-transparent", real, guards, vec,
                               "value %r differs from the unguarded value %r" % (r.value, want))
                    elif r.status == "ok" and r.unsat:
                        report("unsat-under-true-guard", real, guards, vec, "constraints %s not satisfied" % r.unsat[:3])
        # a raise under a false guard is a violation unless the failure is value-independent: the
        # group never completes unguarded AND every vector raises the same exception class under
        # this false guard (invalid public literal such as x / 0, x ** -1, or an operation that the
        # operand types do not offer)
        for (real, guards), lst in pend_raise.items():
            if not well_typed and len(lst) == len(vecs) and len({x[1] for x in lst}) == 1:
                st["value_independent_raises_skipped"] = st.get("value_independent_raises_skipped", 0) + len(lst)
                continue
            for vec, exc, msg in lst:
                report("raises-under-false-guard", real, guards, vec,
                       "raises %s (%s) although the guard is false" % (exc, msg), {"exc": exc})
        for vec in vecs:
            if not do_e2:
                continue
            # ---- witness-space part (all prover choices)
            # (iii) guard 0: the enclosing selection is uniquely the other branch
            for real in ("ite-then", "ite-else"):
                r = run_guarded(prog, vec, n, p, real, (0,), sites=True)
                if r.status != "ok":
                    continue
                inst = _inst_from_trace(r, p, n)
                st["e2_instances"] += 1
                rs = result_set(inst, st)
                if rs is not None and rs not in ({(OTHER % p,)}, {(OTHER * 2 % p,)}):
                    report("selection-not-unique-under-false-guard", real, (0,), vec,
                           "provable results of the selection: %s (expected only %d)" % (sorted(map(str, rs))[:3], OTHER))
            # guard 1: same set of provable results as unguarded; false assertions stay unprovable
            for ign in (False, True):
                u = run_guarded(prog, vec, n, p, "none", (), ign=ign, sites=True)
                if u.status != "ok":
                    continue
                iu = _inst_from_trace(u, p, n)
                ru = result_set(iu, st)
                for greal, gg in (("guarded-int", (1,)), ("nested", (1, 1))):
                    if greal == "nested" and ign:
                        continue
                    g = run_guarded(prog, vec, n, p, greal, gg, ign=ign, sites=True)
                    if g.status != "ok":
                        continue
                    ig = _inst_from_trace(g, p, n)
                    st["e2_instances"] += 2
                    rg = result_set(ig, st)
                    if ru is None or rg is None:
                        continue
                    if ru != rg:
                        report("true-guard-changes-provable-results", greal, gg, vec,
                               "unguarded provable results %s, under %s %s (ignore_errors=%s)"
                               % (sorted(map(str, ru))[:3], "a true guard" if len(gg) == 1 else "two nested true guards",
                                  sorted(map(str, rg))[:3], ign), {"ign": ign})
    st["distinct"] = len(st["distinct"])
    return {"name": name, "st": st, "viols": viols}


HUGE = 10 ** 4400       # more decimal digits than CPython converts to a string by default (4300)


def _huge_task(t):
    """Dead code must stay inert whatever the SIZE of the values it meets: operands with more than 4300 decimal
    digits under a false guard, with the interpreter's default limit on int -> str conversion in force (a library
    that formats a value eagerly on a non-error path raises ValueError there).  A raise is accepted only if the
    same program raises the same class on small values under the same false guard (type refusal)."""
    import sys
    prog, n, p = t
    name = O.expr_str(prog["expr"], prog["kinds"])
    kinds = prog["kinds"]
    st = {"executions": 0, "transitions": 0, "guard0_runs": 0, "guard1_runs": 0, "ill_typed_groups": 0, "groups": 0,
          "e2_instances": 0, "nodes": 0, "undecided": 0, "capped": 0, "distinct": set(), "huge_value_runs": 0}
    viols = {}
    opname = prog["expr"][1]
    growing = any(op in ("pow", "lshift", "rshift") for op in O.expr_ops(prog["expr"]))
    doms = []
    for i, k in enumerate(kinds):
        if k in ("S", "P", "F", "A") and not (growing and i >= 1):
            doms.append([HUGE, -HUGE, 3])
        elif k == "B":
            doms.append([0, 1])
        else:
            doms.append([3])
    small_vec = tuple(d[-1] if len(d) == 3 else d[0] for d in doms)
    for real, guards in (("guarded-int", (0,)), ("ite-then", (0,)), ("nested", (0, 1))):
        small = run_guarded(prog, small_vec, n, p, real, guards)
        for vec in itertools.product(*doms):
            if not any(abs(v) >= HUGE for v in vec):
                continue
            sys.set_int_max_str_digits(4300)
            try:
                r = run_guarded(prog, vec, n, p, real, guards)
            finally:
                sys.set_int_max_str_digits(0)
            st["executions"] += 1
            st["huge_value_runs"] += 1
            st["guard0_runs"] += 1
            st["transitions"] += 1 + len(guards)
            if r.exc == "NotASecret":
                continue
            if r.status == "raise" and not (small.status == "raise" and small.exc == r.exc):
                sig = {"op": opname, "kinds": "".join(kinds), "klass": "raises-under-false-guard", "real": real,
                       "guards": "".join(map(str, guards)), "exc": r.exc, "huge": True}
                k = common.sig_hash(sig)
                if k not in viols:
                    viols[k] = {"sig": sig, "count": 0,
                                "what": "%s on operands %s (H = 10^4400) under %s guards=%s: raises %s (%s) although the guard is false"
                                % (name, ["H" if v == HUGE else ("-H" if v == -HUGE else v) for v in vec], real, list(guards), r.exc, r.msg),
                                "case": {"prog": prog, "huge_vec": ["H" if v == HUGE else ("-H" if v == -HUGE else v) for v in vec], "n": n, "p": p,
                                         "real": real, "guards": list(guards)}}
                viols[k]["count"] += 1
            elif r.status == "ok" and r.unsat:
                sig = {"op": opname, "kinds": "".join(kinds), "klass": "unsat-under-false-guard", "real": real, "huge": True}
                k = common.sig_hash(sig)
                if k not in viols:
                    viols[k] = {"sig": sig, "count": 0, "what": "%s on huge operands under %s: constraints %s not satisfied" % (name, real, r.unsat[:3]),
                                "case": {"prog": prog, "huge_vec": ["H" if v == HUGE else ("-H" if v == -HUGE else v) for v in vec], "n": n, "p": p,
                                         "real": real, "guards": list(guards)}}
                viols[k]["count"] += 1
    st["distinct"] = 0
    return {"name": name, "st": st, "viols": viols}


def _dispatch(t):
    return _huge_task(t[1:]) if t[0] == "huge" else _task(t)


def _init():
    H.bind(REC.BN128)


def run(ctx):
    from .. import xfeat
    xfeat.sweep(ctx, "C07")      # cross-feature compositions (pv/xfeat.py)
    progs = E.depth1_programs(include_fxp=True)
    tasks = []
    cfgs = [(3, REC.BN128, False), (2, REC.BN128, True)]
    if ctx.thorough:
        cfgs += [(3, REC.BLS12_381, True), (2, REC.CURVE25519, False), (4, REC.BN128, False)]
    for n, p, do_e2 in cfgs:
        vals = E.D(n) if n <= 3 else E.lattice(n)
        for prog in progs:
            tasks.append((prog, n, p, vals, do_e2))
    # depth-2 bodies on a reduced interval
    from . import _e1common as X
    d2vals = list(range(-3, 4))
    d2 = X.depth2_family(ctx)
    if not ctx.thorough:
        # quick: every operator as inner operation, consumed by mul / eq / truediv (the consumers whose
        # hints depend on the inner value); the full family runs in the thorough tier
        d2 = [pr for pr in d2 if pr["expr"][1] in ("mul", "eq", "truediv", "sub", "le", "mod")]
    for prog in d2:
        tasks.append((prog, 2, REC.BN128, d2vals, False))
    random.Random(ctx.seed).shuffle(tasks)
    tasks.sort(key=lambda t: -len(t[0]["kinds"]) - (2 if t[4] else 0))
    # values of more than 4300 decimal digits under a false guard (default int -> str limit in force)
    tasks += [("huge", prog, 3, REC.BN128) for prog in progs if "A" not in prog["kinds"]]
    results = common.pool_map(_dispatch, tasks, init=_init)
    agg = {}
    for r in results:
        common.merge_counts(agg, r["st"])
        for v in r["viols"].values():
            ctx.violations.append({"sig": v["sig"], "case": v["case"], "what": v["what"] + " (x%d)" % v["count"]})
    from .. import e1
    e1.dedupe_violations(ctx)
    ctx.cov.update(agg)
    ctx.cov["states"] = agg["distinct"]
    ctx.cov["distinct_outcomes"] = agg["distinct"]
    ctx.cov["programs"] = len(tasks)
    ctx.cov["traces_validated_against_impl"] = agg["executions"]
    ctx.cov["exhaustive"] = agg["undecided"] == 0 and agg["capped"] == 0
    ctx.cov["rule"] = ("body = depth-1 program (and depth-2 composition) x every operand vector of D(n) (valid and "
                       "invalid) x 12 realisations (integer/boolean guard 0/1, two nested guards 00/01/10/11, "
                       "lazy then-/else-branch with condition 0/1); a (program, public literals) group is "
                       "well-typed if it completes unguarded for at least one vector; witness-space part on D(2) "
                       "(D(3) thorough): selection uniquely yields the other branch under a false guard; the set "
                       "of provable results under a true guard equals the unguarded set, with and without "
                       "ignore_errors (so false assertions stay unprovable)")
    ctx.sample({"program": "floordiv(S0, S1)", "inputs": [7, 0], "realisation": "ite-then", "guards": [0],
                "expect": "no exception, system satisfied, selection == 42 in every satisfying assignment"})


def replay(case):
    if isinstance(case, dict) and case.get("xfeat"):
        from .. import xfeat
        return xfeat.replay(case, "C07")
    H.bind(case["p"])
    from . import _e1common as X
    prog = {"expr": X._tuplify(case["prog"]["expr"]), "kinds": list(case["prog"]["kinds"])}
    if "huge_vec" in case:
        t = _huge_task((prog, case["n"], case["p"]))
        return {"program": O.expr_str(prog["expr"], prog["kinds"]), "operands": case["huge_vec"], "H": "10**4400",
                "violations": [v["sig"] for v in t["viols"].values()], "what": [v["what"] for v in t["viols"].values()][:3]}
    r = run_guarded(prog, tuple(case["vals"]), case["n"], case["p"], case["real"], tuple(case["guards"]))
    u = run_guarded(prog, tuple(case["vals"]), case["n"], case["p"], "none", ())
    t = _task((prog, case["n"], case["p"], sorted(set(E.D(case["n"])) | set(case["vals"])), True))
    return {"program": O.expr_str(prog["expr"], prog["kinds"]), "inputs": case["vals"],
            "guarded": {"status": r.status, "exc": r.exc, "msg": r.msg, "value": repr(r.value), "unsat": r.unsat},
            "unguarded": {"status": u.status, "exc": u.exc, "value": repr(u.value)},
            "violations": [v["sig"] for v in t["viols"].values()]}
