"""Recording backend: implements pysnark's backend interface over a configurable prime and keeps
the complete trace (variables, constraints) in memory.

It is bound to the real code by placing the module object in sys.modules under one of the names
of pysnark.runtime's own backend registry *before* pysnark.runtime is imported (see harness.bind).
"""
import sys
import types

BN128 = 21888242871839275222246405745257275088548364400416034343698204186575808495617
BLS12_381 = 52435875175126190479447740508185965837690552500527637822603658699938581184513
CURVE25519 = 7237005577332262213973186563042994240857116359379907606001950938285454250989
REAL_FIELDS = {"bn128": BN128, "bls12-381": BLS12_381, "curve25519": CURVE25519}


class StaleVariable(Exception):
    pass


class LC:
    """Immutable linear combination {var: coeff}; var 0 is the constant one."""
    __slots__ = ("lc",)

    def __init__(self, lc):
        self.lc = lc

    def __add__(self, o):
        d = dict(self.lc)
        for k, v in o.lc.items():
            d[k] = d.get(k, 0) + v
        return LC(d)

    def __sub__(self, o):
        d = dict(self.lc)
        for k, v in o.lc.items():
            d[k] = d.get(k, 0) - v
        return LC(d)

    def __mul__(self, k):
        if not isinstance(k, int):
            raise TypeError("recorder LC scaled by non-int %r" % (k,))
        return LC({a: b * k for a, b in self.lc.items()})

    def __neg__(self):
        return LC({a: -b for a, b in self.lc.items()})

    def __repr__(self):
        return "LC(%r)" % (self.lc,)


def make(p=BN128, name="pysnark.nobackend", sites=False):
    """Create (and register in sys.modules under `name`) a fresh recorder module."""
    m = types.ModuleType(name)
    m.__file__ = __file__
    m.IS_RECORDER = True
    m.LC = LC
    m.StaleVariable = StaleVariable
    m.p = p
    m.vars = []      # (kind, value)            var i (1-based) is vars[i-1]
    m.sites = []     # creation site per variable, only when m.want_sites
    m.cons = []      # (A, B, C) dicts
    m.want_sites = sites
    m.prove_calls = 0

    def _site():
        # first frame outside this file and outside PrivVal/PubVal wrappers
        f = sys._getframe(2)
        while f is not None:
            nm = f.f_code.co_name
            if nm not in ("PrivVal", "PubVal", "PrivValBool", "PubValBool", "PrivValFxp", "PubValFxp"):
                return (f.f_code.co_filename.rsplit("/", 1)[-1], nm, f.f_lineno)
            f = f.f_back
        return None

    def privval(v):
        m.vars.append(("priv", v))
        if m.want_sites:
            m.sites.append(_site())
        return LC({len(m.vars): 1})

    def pubval(v):
        m.vars.append(("pub", v))
        if m.want_sites:
            m.sites.append(_site())
        return LC({len(m.vars): 1})

    def add_constraint(a, b, c):
        m.cons.append((a.lc, b.lc, c.lc))

    def fieldinverse(v):
        return pow(v, -1, m.p)

    def prove():
        m.prove_calls += 1

    m.privval = privval
    m.pubval = pubval
    m.zero = lambda: LC({})
    m.one = lambda: LC({0: 1})
    m.fieldinverse = fieldinverse
    m.get_modulus = lambda: m.p
    m.add_constraint = add_constraint
    m.prove = prove

    def ev(lc, asg=None):
        """Evaluate an LC (object or dict) on the recorded witness or a given assignment."""
        d = lc.lc if isinstance(lc, LC) else lc
        s = 0
        if asg is None:
            vs = m.vars
            nv = len(vs)
            for k, c in d.items():
                if k > nv:
                    # a wire of an EARLIER execution (state kept by the library across resets): no value in this run
                    raise StaleVariable("linear combination mentions variable %d, this run has %d" % (k, nv))
                s += c * (1 if k == 0 else vs[k - 1][1])
        else:
            for k, c in d.items():
                s += c * (1 if k == 0 else asg[k])
        return s % m.p

    def unsatisfied(start=0, asg=None):
        bad = []
        p_ = m.p
        for i in range(start, len(m.cons)):
            a, b, c = m.cons[i]
            try:
                if (ev(a, asg) * ev(b, asg) - ev(c, asg)) % p_:
                    bad.append(i)
            except StaleVariable:
                bad.append(i)       # a constraint over a variable that does not exist is not satisfied by the witness
        return bad

    def canon_lc(d):
        p_ = m.p
        return tuple(sorted((k, c % p_) for k, c in d.items() if c % p_))

    def canonical_trace(start_var=0, start_con=0):
        kinds = tuple(k for k, _ in m.vars[start_var:])
        cons = tuple((canon_lc(a), canon_lc(b), canon_lc(c)) for a, b, c in m.cons[start_con:])
        return kinds, cons

    def reset():
        m.vars.clear()
        m.sites.clear()
        m.cons.clear()
        m.prove_calls = 0

    m.ev = ev
    m.unsatisfied = unsatisfied
    m.canon_lc = canon_lc
    m.canonical_trace = canonical_trace
    m.reset = reset
    sys.modules[name] = m
    return m
