"""E2 driver: builds gadget instances on the real code (operands pinned, everything the call
introduces left to the adversarial prover) and classifies the satisfying assignments."""
import linecache

from . import harness as H
from . import opseq as E
from . import ops as O
from . import witness as W


class Instance:
    __slots__ = ("cons", "nvars", "fixed", "wires", "honest", "sites", "p", "n", "status", "exc",
                 "value", "assignment", "kinds", "operand_vars")


def build(prog, vals, mode, n, p, pin_extra=True):
    """Trace prog on vals; return Instance (status 'ok' or 'raise')."""
    H.R.p = p
    H.R.want_sites = True
    H.reset(bitlength=n, resolution=1)
    rt = H.rt
    inst = Instance()
    inst.p, inst.n = p, n
    operands = []
    inst.operand_vars = []
    for k, v in zip(prog["kinds"], vals):
        before = len(H.R.vars)
        operands.append(E.make_operand(k, v))
        inst.operand_vars.append(before + 1 if len(H.R.vars) > before else None)
    fixed = {}
    for i in range(1, len(H.R.vars) + 1):
        fixed[i] = H.R.vars[i - 1][1]
    nop = len(H.R.vars)
    out = E.Outcome()
    out.unsat, out.mism, out.calls, out.steps = [], [], 0, None
    res = None
    try:
        if mode == "plain":
            res = E._apply(prog["expr"], operands, out)
        elif mode == "ign":
            rt.ignore_errors(True)
            try:
                res = E._apply(prog["expr"], operands, out)
            finally:
                rt.ignore_errors(False)
        elif mode in ("g0", "g1"):
            g = rt.PrivVal(1 if mode == "g1" else 0)
            fixed[len(H.R.vars)] = g.value
            res = rt.guarded(g)(lambda: E._apply(prog["expr"], operands, out))()
        elif mode in ("reuse", "reuse-ign"):
            # history: the same call on the SAME operand objects inside a branch that is not taken,
            # then again at top level; the second result must still be uniquely determined
            c = H.boolean.PrivValBool(0)
            fixed[len(H.R.vars)] = 0

            def untaken():
                r = E._apply(prog["expr"], operands, out)
                r = r[0] if isinstance(r, tuple) else r
                return r if isinstance(r, (rt.LinComb, H.boolean.LinCombBool, H.fixedpoint.LinCombFxp)) else 0
            H.branching.if_then_else(c, untaken, 0)
            if mode == "reuse-ign":
                rt.ignore_errors(True)
                try:
                    res = E._apply(prog["expr"], operands, out)
                finally:
                    rt.ignore_errors(False)
            else:
                res = E._apply(prog["expr"], operands, out)
        inst.status, inst.exc = "ok", None
    except Exception as ex:  # noqa: BLE001
        inst.status, inst.exc = "raise", type(ex).__name__
    rt.guard, rt._ignore_errors, rt.LinComb.ONE = None, False, rt.LinComb.ONE_SAFE
    inst.cons = list(H.R.cons)
    inst.nvars = len(H.R.vars)
    for i, k in enumerate(prog["kinds"]):
        if k == "V" and inst.nvars > nop:
            # plain value handed to a constructor: the variable it creates is the "operand"
            inst.operand_vars[i] = nop + 1
            fixed[nop + 1] = H.R.vars[nop][1]
            break
    inst.fixed = fixed
    inst.sites = list(H.R.sites)
    inst.assignment = {i + 1: v[1] % p for i, v in enumerate(H.R.vars)}
    inst.value = H.plain(res) if inst.status == "ok" else None
    inst.wires = [dict(lc.lc.lc) for lc in H.secrets_in(res)] if inst.status == "ok" else []
    inst.honest = [W.eval_lc(w, inst.assignment, p) for w in inst.wires]
    H.R.want_sites = False
    return inst


def site_text(site):
    if not site:
        return ("?", "?", "?")
    fn, func, lineno = site
    # linecache needs the full path; sites keep the basename only -> search known modules
    import sys
    for m in list(sys.modules.values()):
        f = getattr(m, "__file__", None)
        if f and f.endswith("/" + fn) and "/pysnark/" in f:
            return (fn, func, linecache.getline(f, lineno).strip())
    return (fn, func, "line %d" % lineno)


def centered(x, p):
    x %= p
    return x - p if x > p // 2 else x


def classify(inst, sols):
    """Compare every solution with the honest run.  Returns list of findings:
    dict(klass, root(site text), alt(total assignment), wire_index, detail...)."""
    p = inst.p
    out = []
    red = W.reduce_system(inst.cons, p)
    for s in sols:
        hit = None
        undecided = False
        for wi, w in enumerate(inst.wires):
            if (s.dependent or s.affine) and W.depends_on_dependent(w, s, p):
                # substitute the eliminated variables by their (affine) definitions: the wire may
                # still be constant, or it may vary with a free variable
                aw = W.affine_wire(w, s, red, p)
                if aw is None:
                    undecided = True
                    continue
                dep = sorted(v for v in aw[1] if v in s.free)
            else:
                dep = W.depends_on_free(w, s.free, p)
            if dep:
                hit = (wi, min(dep))
                break
        if undecided and not hit:
            out.append({"klass": "undecided-dependent", "root": ("?", "?", "?"), "var": None, "alt": {}, "wire_index": -1})
            continue
        if hit:
            wi, v = hit
            fv = {f: ((inst.assignment[f] + 1) if f == v else inst.assignment[f]) for f in s.free}
            out.append({"klass": "free-output", "root": site_text(inst.sites[v - 1]), "var": v,
                        "alt": W.complete(s, red, fv, p), "wire_index": wi})
            continue
        alt = W.complete(s, red, inst.assignment, p)
        for wi, w in enumerate(inst.wires):
            got = W.eval_lc(w, alt, p)
            if got != inst.honest[wi]:
                diff = sorted(v for v in alt if v not in inst.fixed and alt[v] != inst.assignment[v])
                root = diff[0] if diff else None
                out.append({"klass": "result-not-unique",
                            "root": site_text(inst.sites[root - 1]) if root else ("?", "?", "?"),
                            "var": root, "alt": alt, "wire_index": wi,
                            "honest": inst.honest[wi], "got": got,
                            "root_centered": centered(alt[root], p) if root else None})
                break
    return out


def honest_is_solution(inst, sols):
    p = inst.p
    for s in sols:
        if all(inst.assignment[v] == x for v, x in s.asg.items()):
            return True
    return False


def cross_validate(inst):
    """Small field only: brute force and exact engine must produce the same solution set."""
    p = inst.p
    b, st = W.brute(inst.cons, inst.nvars, inst.fixed, p)
    sols, undec, st2 = W.exact(inst.cons, inst.nvars, inst.fixed, p)
    if undec:
        return {"agree": None, "brute": len(b), "undecided": len(undec), "nodes": st["nodes"]}
    ex = set()
    for s in sols:
        ex.update(W.expand(s, p, inst.nvars, cons=W.reduce_system(inst.cons, p)))
    return {"agree": ex == set(b), "brute": len(b), "exact": len(ex), "nodes": st["nodes"],
            "brute_sols": b}
