"""E2: witness-space explorer — enumerates ALL assignments of the non-pinned variables of a
recorded constraint system that satisfy every constraint.

Two engines over the same system:
  brute(...)  depth-first search over F_p for small p (plain exhaustive enumeration with early
              constraint evaluation; pruning only discards assignments violating a constraint)
  exact(...)  enumeration in any prime field by exact single-unknown solving (degree <= 2, roots by
              the quadratic formula + Tonelli-Shanks) with finite-root branching; variables that
              remain unconstrained are returned as *free* (they parameterise a family); systems it
              cannot finish are reported `undecided`, never guessed.
"""
import sys

sys.setrecursionlimit(20000)


def reduce_system(cons, p):
    out = []
    for a, b, c in cons:
        out.append(tuple({k: v % p for k, v in d.items() if v % p} for d in (a, b, c)))
    return out


# ------------------------------------------------------------------------------------------ brute

def brute(cons, nvars, fixed, p, max_nodes=5_000_000):
    """All satisfying total assignments {var: value}.  fixed: {var: value} pinned variables.
    Returns (solutions, stats) or raises Capped."""
    cons = reduce_system(cons, p)
    bylast = {}
    for a, b, c in cons:
        vs = set(a) | set(b) | set(c)
        vs.discard(0)
        bylast.setdefault(max(vs) if vs else 0, []).append((a, b, c))
    asg = [0] * (nvars + 1)
    asg[0] = 1
    sols = []
    stats = {"nodes": 0}

    def ok(v):
        for a, b, c in bylast.get(v, ()):
            sa = 0
            for k, co in a.items():
                sa += co * asg[k]
            sb = 0
            for k, co in b.items():
                sb += co * asg[k]
            sc = 0
            for k, co in c.items():
                sc += co * asg[k]
            if (sa * sb - sc) % p:
                return False
        return True

    if not ok(0):
        return sols, stats

    def rec(v):
        if v > nvars:
            sols.append(tuple(asg[1:]))
            return
        dom = (fixed[v] % p,) if v in fixed else range(p)
        for x in dom:
            stats["nodes"] += 1
            if stats["nodes"] > max_nodes:
                raise Capped("brute node cap")
            asg[v] = x
            if ok(v):
                rec(v + 1)
        asg[v] = 0

    rec(1)
    return sols, stats


class Capped(Exception):
    pass


# ------------------------------------------------------------------------------------------ exact

_SQRT_CACHE = {}


def sqrt_mod(a, p):
    a %= p
    key = (a, p)
    r = _SQRT_CACHE.get(key)
    if r is None:
        import math
        i = math.isqrt(a)
        if i * i == a:          # perfect square over the integers: roots are +-i
            r = sorted({i % p, (-i) % p})
        else:
            r = _sqrt_mod(a, p)
        if len(_SQRT_CACHE) < 100000:
            _SQRT_CACHE[key] = r
    return r


def _sqrt_mod(a, p):
    if a == 0:
        return [0]
    if p == 2:
        return [a]
    if pow(a, (p - 1) // 2, p) != 1:
        return []
    if p % 4 == 3:
        r = pow(a, (p + 1) // 4, p)
        return sorted({r, p - r})
    q, s = p - 1, 0
    while q % 2 == 0:
        q //= 2
        s += 1
    z = 2
    while pow(z, (p - 1) // 2, p) != p - 1:
        z += 1
    m, c, t, r = s, pow(z, q, p), pow(a, q, p), pow(a, (q + 1) // 2, p)
    while t != 1:
        i, tt = 0, t
        while tt != 1:
            tt = tt * tt % p
            i += 1
        b = pow(c, 1 << (m - i - 1), p)
        m, c = i, b * b % p
        t, r = t * c % p, r * b % p
    return sorted({r, p - r})


class Solution:
    __slots__ = ("asg", "free")

    def __init__(self, asg, free):
        self.asg, self.free = asg, free


def exact(cons, nvars, fixed, p, max_leaves=1 << 14):
    """Returns (solutions, undecided, stats).  solutions: list of Solution(asg, free) where asg
    assigns every non-free variable; free variables may take ANY value of F_p.
    undecided: list of partial assignments on which the engine could not finish."""
    cons = reduce_system(cons, p)
    sols, undecided = [], []
    stats = {"nodes": 0, "leaves": 0}

    def split(lc, asg):
        k, unk = 0, None
        for v, c in lc.items():
            if v == 0:
                k += c
            elif v in asg:
                k += c * asg[v]
            else:
                if unk is None:
                    unk = {}
                unk[v] = c
        return k % p, (unk or {})

    def step(asg, live):
        """One propagation pass.  Returns ('conflict',) | ('assign', var, roots) | ('quiet', pending, live)"""
        best = None
        pending = []
        nlive = []
        for idx in live:
            A, B, C = cons[idx]
            a0, au = split(A, asg)
            b0, bu = split(B, asg)
            c0, cu = split(C, asg)
            if not au and a0 == 0:
                bu, b0 = {}, 0
            if not bu and b0 == 0:
                au, a0 = {}, 0
            unk = set(au) | set(bu) | set(cu)
            if not unk:
                if (a0 * b0 - c0) % p:
                    return ("conflict",)
                continue
            nlive.append(idx)
            if len(unk) == 1:
                u = next(iter(unk))
                a1, b1, c1 = au.get(u, 0), bu.get(u, 0), cu.get(u, 0)
                qa = a1 * b1 % p
                qb = (a0 * b1 + a1 * b0 - c1) % p
                qc = (a0 * b0 - c0) % p
                if qa == 0:
                    if qb == 0:
                        if qc:
                            return ("conflict",)
                        continue        # vanishes identically in u
                    roots = [(-qc * pow(qb, -1, p)) % p]
                else:
                    inv2a = pow(2 * qa, -1, p) if p != 2 else None
                    if inv2a is None:
                        roots = [x for x in range(p) if (qa * x * x + qb * x + qc) % p == 0]
                    else:
                        disc = (qb * qb - 4 * qa * qc) % p
                        roots = sorted({((-qb + s) * inv2a) % p for s in sqrt_mod(disc, p)})
                    if not roots:
                        return ("conflict",)
                if len(roots) == 1:
                    return ("assign", u, roots, nlive + [i for i in live if i > idx])
                if best is None:
                    best = ("assign", u, roots)
            else:
                pending.append(idx)
        if best:
            return best + (nlive,)
        return ("quiet", pending, nlive)

    def rec(asg, live):
        stats["nodes"] += 1
        while True:
            r = step(asg, live)
            if r[0] == "conflict":
                return
            if r[0] == "assign":
                _, u, roots, live = r
                if len(roots) == 1:
                    asg[u] = roots[0]
                    continue
                for x in roots:
                    a2 = dict(asg)
                    a2[u] = x
                    rec(a2, live)
                return
            break
        stats["leaves"] += 1
        if stats["leaves"] > max_leaves:
            raise Capped("exact leaf cap")
        _, pending, live = r
        free = [v for v in range(1, nvars + 1) if v not in asg]
        if pending:
            # constraints with >= 2 unknowns remain: not finished
            undecided.append((asg, free))
            return
        # remaining live constraints vanish identically in their single unknown -> unknowns free
        sols.append(Solution(asg, free))

    rec({k: v % p for k, v in fixed.items()}, list(range(len(cons))))
    return sols, undecided, stats


def eval_lc(lc, asg, p):
    s = 0
    for k, c in lc.items():
        s += c * (1 if k == 0 else asg[k])
    return s % p


def depends_on_free(lc, free, p):
    return [v for v in free if lc.get(v, 0) % p]


def verify(cons, asg_full, p):
    for a, b, c in cons:
        if (eval_lc(a, asg_full, p) * eval_lc(b, asg_full, p) - eval_lc(c, asg_full, p)) % p:
            return False
    return True


def expand(sol, p, nvars, cap=200000):
    """All total assignments represented by a Solution (only for small p)."""
    import itertools
    out = []
    if p ** len(sol.free) > cap:
        raise Capped("expansion cap")
    for combo in itertools.product(range(p), repeat=len(sol.free)):
        a = dict(sol.asg)
        a.update(zip(sol.free, combo))
        out.append(tuple(a[i] for i in range(1, nvars + 1)))
    return out
