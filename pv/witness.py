"""E2: witness-space explorer — enumerates ALL assignments of the non-pinned variables of a
recorded constraint system that satisfy every constraint.

Two engines over the same system:
  brute(...)  depth-first search over F_p for small p (plain exhaustive enumeration with early
              constraint evaluation; pruning only discards assignments violating a constraint)
  exact(...)  enumeration in any prime field by exact single-unknown solving (degree <= 2, roots by
              the quadratic formula + Tonelli-Shanks) with finite-root branching; variables that
              remain unconstrained are returned as *free* (they parameterise a family); systems it
              cannot finish are reported `undecided`, never guessed.
"""
import sys

sys.setrecursionlimit(20000)


def reduce_system(cons, p):
    out = []
    for a, b, c in cons:
        out.append(tuple({k: v % p for k, v in d.items() if v % p} for d in (a, b, c)))
    return out


# ------------------------------------------------------------------------------------------ brute

def brute(cons, nvars, fixed, p, max_nodes=5_000_000):
    """All satisfying total assignments {var: value}.  fixed: {var: value} pinned variables.
    Returns (solutions, stats) or raises Capped."""
    cons = reduce_system(cons, p)
    bylast = {}
    for a, b, c in cons:
        vs = set(a) | set(b) | set(c)
        vs.discard(0)
        bylast.setdefault(max(vs) if vs else 0, []).append((a, b, c))
    asg = [0] * (nvars + 1)
    asg[0] = 1
    sols = []
    stats = {"nodes": 0}

    def ok(v):
        for a, b, c in bylast.get(v, ()):
            sa = 0
            for k, co in a.items():
                sa += co * asg[k]
            sb = 0
            for k, co in b.items():
                sb += co * asg[k]
            sc = 0
            for k, co in c.items():
                sc += co * asg[k]
            if (sa * sb - sc) % p:
                return False
        return True

    if not ok(0):
        return sols, stats

    def rec(v):
        if v > nvars:
            sols.append(tuple(asg[1:]))
            return
        dom = (fixed[v] % p,) if v in fixed else range(p)
        for x in dom:
            stats["nodes"] += 1
            if stats["nodes"] > max_nodes:
                raise Capped("brute node cap")
            asg[v] = x
            if ok(v):
                rec(v + 1)
        asg[v] = 0

    rec(1)
    return sols, stats


class Capped(Exception):
    pass


# ------------------------------------------------------------------------------------------ exact

_SQRT_CACHE = {}


def sqrt_mod(a, p):
    a %= p
    key = (a, p)
    r = _SQRT_CACHE.get(key)
    if r is None:
        import math
        i = math.isqrt(a)
        if i * i == a:          # perfect square over the integers: roots are +-i
            r = sorted({i % p, (-i) % p})
        else:
            r = _sqrt_mod(a, p)
        if len(_SQRT_CACHE) < 100000:
            _SQRT_CACHE[key] = r
    return r


def _sqrt_mod(a, p):
    if a == 0:
        return [0]
    if p == 2:
        return [a]
    if pow(a, (p - 1) // 2, p) != 1:
        return []
    if p % 4 == 3:
        r = pow(a, (p + 1) // 4, p)
        return sorted({r, p - r})
    q, s = p - 1, 0
    while q % 2 == 0:
        q //= 2
        s += 1
    z = 2
    while pow(z, (p - 1) // 2, p) != p - 1:
        z += 1
    m, c, t, r = s, pow(z, q, p), pow(a, q, p), pow(a, (q + 1) // 2, p)
    while t != 1:
        i, tt = 0, t
        while tt != 1:
            tt = tt * tt % p
            i += 1
        b = pow(c, 1 << (m - i - 1), p)
        m, c = i, b * b % p
        t, r = t * c % p, r * b % p
    return sorted({r, p - r})


class Solution:
    """asg: assigned variables; free: variables that may take ANY value; dependent: list of
    (var, constraint index) - variables eliminated as linear absorbers: each occurs only in the
    C side of exactly one remaining constraint, so whatever the other variables are there is exactly
    one value for it (solve in reverse order)."""
    __slots__ = ("asg", "free", "dependent", "exist", "affine")

    def __init__(self, asg, free, dependent=(), exist=None, affine=None):
        self.asg, self.free, self.dependent = asg, free, list(dependent)
        # affine: {var: (const, {free var: coeff})} - pivot variables of the linear part of the
        # remaining constraints (Gaussian elimination): determined by the free variables
        self.affine = affine or {}
        # exist: variables of constraint components that do not touch the wires of interest and
        # that the honest witness satisfies: only their existence matters (value = honest one)
        self.exist = exist or {}


def gauss(rows, p):
    """Solve the linear system {sum coef*var = rhs} over F_p.  Returns (pivots, consistent) with
    pivots = {var: (const, {non-pivot var: coeff})}."""
    rows = [(dict((v, c % p) for v, c in r.items() if c % p), rhs % p) for r, rhs in rows]
    piv_rows = []                       # (pivot var, row dict normalised to coeff 1, rhs)
    for r, rhs in rows:
        r = dict(r)
        for pv, pr, prhs in piv_rows:   # eliminate known pivots
            c = r.pop(pv, 0)
            if c:
                for v, cv in pr.items():
                    if v != pv:
                        r[v] = (r.get(v, 0) - c * cv) % p
                rhs = (rhs - c * prhs) % p
        r = {v: c for v, c in r.items() if c}
        if not r:
            if rhs:
                return {}, False
            continue
        pv = max(r)                     # pivot on the latest-created variable
        inv = pow(r[pv], -1, p)
        nr = {v: c * inv % p for v, c in r.items()}
        nrhs = rhs * inv % p
        # back-substitute into earlier pivot rows
        for i, (qv, qr, qrhs) in enumerate(piv_rows):
            c = qr.get(pv, 0)
            if c:
                qr = dict(qr)
                del qr[pv]
                for v, cv in nr.items():
                    if v != pv:
                        qr[v] = (qr.get(v, 0) - c * cv) % p
                qr = {v: cc for v, cc in qr.items() if cc or v == qv}
                piv_rows[i] = (qv, qr, (qrhs - c * nrhs) % p)
        piv_rows.append((pv, nr, nrhs))
    piv = {}
    for pv, pr, prhs in piv_rows:
        piv[pv] = (prhs % p, {v: (-c) % p for v, c in pr.items() if v != pv and c % p})
    return piv, True


def subset_sum(row, rhs, doms, p, cap):
    """All assignments of the unknowns of  sum_v row[v]*x_v = rhs (mod p)  with x_v in doms[v] (two
    values each).  Returns None if the sums could wrap around p (rule not applicable)."""
    items = []
    base = 0
    for v, c in row.items():
        r0, r1 = doms[v]
        base += c * r0
        d = c * (r1 - r0) % p
        if d > p // 2:
            d -= p
        items.append((v, r0, r1, d))
    pos = sum(d for _, _, _, d in items if d > 0)
    neg = sum(d for _, _, _, d in items if d < 0)
    if pos - neg >= p:
        return None
    t = (rhs - base) % p
    # the unique representative of t in [neg, pos], if any
    t = neg + ((t - neg) % p)
    if t > pos:
        return []
    items.sort(key=lambda it: -abs(it[3]))
    k = len(items)
    lo = [0] * (k + 1)
    hi = [0] * (k + 1)
    for i in range(k - 1, -1, -1):
        d = items[i][3]
        lo[i] = lo[i + 1] + min(d, 0)
        hi[i] = hi[i + 1] + max(d, 0)
    out = []
    cur = {}

    def rec(i, rem):
        if rem < lo[i] or rem > hi[i]:
            return
        if i == k:
            out.append(dict(cur))
            if len(out) > cap:
                raise Capped("subset-sum cap")
            return
        v, r0, r1, d = items[i]
        cur[v] = r0
        rec(i + 1, rem)
        cur[v] = r1
        rec(i + 1, rem - d)
        del cur[v]
    rec(0, t)
    return out


def exact(cons, nvars, fixed, p, max_leaves=1 << 14, relevant=None, honest=None):
    """Returns (solutions, undecided, stats).  solutions: list of Solution(asg, free) where asg
    assigns every non-free variable; free variables may take ANY value of F_p.
    undecided: list of partial assignments on which the engine could not finish."""
    cons = reduce_system(cons, p)
    sols, undecided = [], []
    stats = {"nodes": 0, "leaves": 0}

    def split(lc, asg):
        k, unk = 0, None
        for v, c in lc.items():
            if v == 0:
                k += c
            elif v in asg:
                k += c * asg[v]
            else:
                if unk is None:
                    unk = {}
                unk[v] = c
        return k % p, (unk or {})

    def step(asg, live):
        """One propagation pass.  Returns ('conflict',) | ('assign', var, roots) | ('quiet', pending, live)"""
        best = None
        pending = []
        nlive = []
        doms = {}
        for idx in live:
            A, B, C = cons[idx]
            a0, au = split(A, asg)
            b0, bu = split(B, asg)
            c0, cu = split(C, asg)
            if not au and a0 == 0:
                bu, b0 = {}, 0
            if not bu and b0 == 0:
                au, a0 = {}, 0
            unk = set(au) | set(bu) | set(cu)
            if not unk:
                if (a0 * b0 - c0) % p:
                    return ("conflict",)
                continue
            nlive.append(idx)
            if len(unk) == 1:
                u = next(iter(unk))
                a1, b1, c1 = au.get(u, 0), bu.get(u, 0), cu.get(u, 0)
                qa = a1 * b1 % p
                qb = (a0 * b1 + a1 * b0 - c1) % p
                qc = (a0 * b0 - c0) % p
                if qa == 0:
                    if qb == 0:
                        if qc:
                            return ("conflict",)
                        continue        # vanishes identically in u
                    roots = [(-qc * pow(qb, -1, p)) % p]
                else:
                    inv2a = pow(2 * qa, -1, p) if p != 2 else None
                    if inv2a is None:
                        roots = [x for x in range(p) if (qa * x * x + qb * x + qc) % p == 0]
                    else:
                        disc = (qb * qb - 4 * qa * qc) % p
                        roots = sorted({((-qb + s) * inv2a) % p for s in sqrt_mod(disc, p)})
                    if not roots:
                        return ("conflict",)
                if len(roots) == 1:
                    return ("assign", u, roots, nlive + [i for i in live if i > idx])
                if u in doms:
                    roots = [x for x in doms[u] if x in roots]
                    if not roots:
                        return ("conflict",)
                    if len(roots) == 1:
                        return ("assign", u, roots, nlive + [i for i in live if i > idx])
                doms[u] = roots
                if best is None:
                    best = ("assign", u, roots)
            else:
                pending.append(idx)
        if best:
            # weighted-sum rule: a pending LINEAR constraint all of whose unknowns have a two-element
            # domain and whose sums cannot wrap around p is solved jointly (exact subset-sum search
            # with interval pruning) instead of branching on its unknowns one by one
            rows = []
            for idx in pending:
                A, B, C = cons[idx]
                a0, au = split(A, asg)
                b0, bu = split(B, asg)
                c0, cu = split(C, asg)
                if au and bu:
                    continue
                row = {}
                for v, c in bu.items():
                    row[v] = (row.get(v, 0) + a0 * c) % p
                for v, c in au.items():
                    row[v] = (row.get(v, 0) + b0 * c) % p
                for v, c in cu.items():
                    row[v] = (row.get(v, 0) - c) % p
                row = {v: c for v, c in row.items() if c}
                if row:
                    rows.append([row, (c0 - a0 * b0) % p])
            # unknowns without a domain are eliminated between the linear rows first (each such unknown
            # is defined by one row, which is then dropped: it holds for exactly one value of that unknown)
            two = lambda v: v in doms and len(doms[v]) == 2
            while True:
                piv = None
                for i, (row, k) in enumerate(rows):
                    for v in row:
                        if not two(v):
                            piv = (i, v)
                            break
                    if piv:
                        break
                if piv is None:
                    break
                i, v = piv
                row, k = rows.pop(i)
                inv = pow(row[v], -1, p)
                for r2 in rows:
                    c = r2[0].get(v)
                    if c:
                        f = c * inv % p
                        for w, cw in row.items():
                            nv = (r2[0].get(w, 0) - f * cw) % p
                            if nv:
                                r2[0][w] = nv
                            else:
                                r2[0].pop(w, None)
                        r2[1] = (r2[1] - f * k) % p
            cands = [(row, k) for row, k in rows if len(row) >= 2]
            for row, k in rows:
                if not row and k:
                    return ("conflict",)
            if cands:
                for cap in (4, 64, 1024, max_leaves):
                    capped = False
                    for row, k in cands:
                        try:
                            joint = subset_sum(row, k, doms, p, cap)
                        except Capped:
                            capped = True
                            continue
                        if joint is not None:
                            return ("joint", joint, nlive)
                    if not capped:
                        break
            return best + (nlive,)
        return ("quiet", pending, nlive)

    def rec(asg, live):
        stats["nodes"] += 1
        while True:
            r = step(asg, live)
            if r[0] == "conflict":
                return
            if r[0] == "joint":
                _, joint, live = r
                if not joint:
                    return
                if len(joint) == 1:
                    asg.update(joint[0])
                    continue
                for j in joint:
                    a2 = dict(asg)
                    a2.update(j)
                    rec(a2, live)
                return
            if r[0] == "assign":
                _, u, roots, live = r
                if len(roots) == 1:
                    asg[u] = roots[0]
                    continue
                for x in roots:
                    a2 = dict(asg)
                    a2[u] = x
                    rec(a2, live)
                return
            break
        stats["leaves"] += 1
        if stats["leaves"] > max_leaves:
            raise Capped("exact leaf cap")
        _, pending, live = r
        free = [v for v in range(1, nvars + 1) if v not in asg]
        dependent = []
        exist = {}
        affine = {}
        if pending:
            # constraints with >= 2 unknowns remain.  Eliminate linear absorbers: an unknown that
            # occurs in exactly one live constraint, only on its C side.
            pend = set(pending)
            occ = {}
            for idx in live:
                A, B, C = cons[idx]
                for side, d in ((0, A), (1, B), (2, C)):
                    for v in d:
                        if v != 0 and v not in asg:
                            occ.setdefault(v, []).append((idx, side))
            changed = True
            while pend and changed:
                changed = False
                for idx in sorted(pend):
                    A, B, C = cons[idx]
                    for v in C:
                        if v == 0 or v in asg:
                            continue
                        o = occ.get(v, ())
                        if len(o) == 1 and o[0] == (idx, 2):
                            dependent.append((v, idx))
                            pend.discard(idx)
                            for d in (A, B, C):
                                for w in d:
                                    if w in occ:
                                        occ[w] = [x for x in occ[w] if x[0] != idx]
                            changed = True
                            break
                    if changed:
                        break
            if pend:
                # linear part of what is still pending: Gaussian elimination over F_p
                rows, lin_idx = [], set()
                for idx in sorted(pend):
                    A, B, C = cons[idx]
                    a0, au = split(A, asg)
                    b0, bu = split(B, asg)
                    c0, cu = split(C, asg)
                    if au and bu:
                        continue                    # product of two unknown combinations
                    row = {}
                    for v, c in bu.items():
                        row[v] = (row.get(v, 0) + a0 * c) % p
                    for v, c in au.items():
                        row[v] = (row.get(v, 0) + b0 * c) % p
                    for v, c in cu.items():
                        row[v] = (row.get(v, 0) - c) % p
                    rows.append((row, (c0 - a0 * b0) % p))
                    lin_idx.add(idx)
                if rows:
                    piv, consistent = gauss(rows, p)
                    if not consistent:
                        return                      # no solution in this branch
                    det = {v: k for v, (k, deps) in piv.items() if not deps}
                    if det:
                        a2 = dict(asg)
                        a2.update(det)
                        stats["leaves"] -= 1
                        rec(a2, live)               # uniquely determined variables: propagate again
                        return
                    nonlin = pend - lin_idx
                    nl_vars = {v for idx in nonlin for d in cons[idx] for v in d if v != 0 and v not in asg}
                    lin_vars = {v for r, _ in rows for v in r}
                    if not (nl_vars & lin_vars):
                        affine = piv
                        pend = nonlin
            if pend and relevant is not None and honest is not None:
                # connected components (by shared unknowns) of the constraints still pending; a
                # component that does not touch the wires of interest only has to be satisfiable,
                # which the honest witness shows if it satisfies it together with this branch
                comp_of, comps = {}, []
                for idx in sorted(pend):
                    A, B, C = cons[idx]
                    vs = {v for d in (A, B, C) for v in d if v != 0 and v not in asg}
                    hit = {comp_of[v] for v in vs if v in comp_of}
                    if hit:
                        tgt = min(hit)
                        for h in hit - {tgt}:
                            comps[tgt][0].update(comps[h][0])
                            comps[tgt][1].update(comps[h][1])
                            for v in comps[h][1]:
                                comp_of[v] = tgt
                            comps[h] = (set(), set())
                    else:
                        tgt = len(comps)
                        comps.append((set(), set()))
                    comps[tgt][0].add(idx)
                    comps[tgt][1].update(vs)
                    for v in vs:
                        comp_of[v] = tgt
                dep_vars = {v for v, _ in dependent}
                ok = True
                for idxs, vs in comps:
                    if not idxs:
                        continue
                    if vs & relevant or vs & dep_vars or vs & set(affine) or any(vs & set(d) for _, d in affine.values()):
                        ok = False
                        break
                    trial = dict(asg)
                    for v in vs:
                        trial[v] = honest[v] % p
                    trial[0] = 1
                    for idx in idxs:
                        A, B, C = cons[idx]
                        if (eval_lc(A, trial, p) * eval_lc(B, trial, p) - eval_lc(C, trial, p)) % p:
                            ok = False
                            break
                    if not ok:
                        break
                    for v in vs:
                        exist[v] = honest[v] % p
                if ok:
                    pend = set()
            if pend:
                undecided.append((asg, free))
                return
            dep = {v for v, _ in dependent}
            free = [v for v in free if v not in dep and v not in exist and v not in affine]
        # remaining live constraints vanish identically in their single unknown -> unknowns free
        sols.append(Solution(asg, free, dependent, exist, affine))

    rec({k: v % p for k, v in fixed.items()}, list(range(len(cons))))
    return sols, undecided, stats


def eval_lc(lc, asg, p):
    s = 0
    for k, c in lc.items():
        s += c * (1 if k == 0 else asg[k])
    return s % p


def depends_on_free(lc, free, p):
    return [v for v in free if lc.get(v, 0) % p]


def depends_on_dependent(lc, sol, p):
    return [v for v, _ in sol.dependent if lc.get(v, 0) % p] + [v for v in sol.affine if lc.get(v, 0) % p]


def verify(cons, asg_full, p):
    for a, b, c in cons:
        if (eval_lc(a, asg_full, p) * eval_lc(b, asg_full, p) - eval_lc(c, asg_full, p)) % p:
            return False
    return True


def expand(sol, p, nvars, cap=200000, cons=None):
    """All total assignments represented by a Solution (only for small p)."""
    import itertools
    out = []
    if p ** len(sol.free) > cap:
        raise Capped("expansion cap")
    for combo in itertools.product(range(p), repeat=len(sol.free)):
        a = dict(sol.asg)
        a.update(sol.exist)
        a.update(zip(sol.free, combo))
        for v, (k, deps) in sol.affine.items():
            a[v] = (k + sum(c * a[f] for f, c in deps.items())) % p
        if sol.dependent:
            a[0] = 1
            for v, idx in reversed(sol.dependent):
                A, B, C = cons[idx]
                rest = sum(c * a[k] for k, c in C.items() if k != v)
                lhs = sum(c * a[k] for k, c in A.items()) * sum(c * a[k] for k, c in B.items())
                a[v] = (lhs - rest) * pow(C[v], -1, p) % p
        out.append(tuple(a[i] for i in range(1, nvars + 1)))
    return out


def complete(sol, cons_reduced, free_values, p):
    """Total assignment of a Solution for given values of its free variables."""
    a = dict(sol.asg)
    a.update(sol.exist)
    for f in sol.free:
        a[f] = free_values[f] % p
    for v, (k, deps) in sol.affine.items():
        a[v] = (k + sum(c * a[f] for f, c in deps.items())) % p
    a[0] = 1
    for v, idx in reversed(sol.dependent):
        A, B, C = cons_reduced[idx]
        rest = sum(c * a[k] for k, c in C.items() if k != v)
        lhs = sum(c * a[k] for k, c in A.items()) * sum(c * a[k] for k, c in B.items())
        a[v] = (lhs - rest) * pow(C[v], -1, p) % p
    del a[0]
    return a


def affine_wire(lc, sol, cons_reduced, p):
    """Express a wire as constant + sum coeff*free over a Solution, substituting dependent
    variables by their defining constraint when that is affine in the unknowns.
    Returns (const, {free var: coeff}) or None when a needed definition is not affine."""
    asg = sol.asg
    const, unk = 0, {}
    for k, c in lc.items():
        c %= p
        if not c:
            continue
        if k == 0:
            const += c
        elif k in asg:
            const += c * asg[k]
        else:
            unk[k] = (unk.get(k, 0) + c) % p

    def side(d):
        k0, u = 0, {}
        for k, c in d.items():
            if k == 0:
                k0 += c
            elif k in asg:
                k0 += c * asg[k]
            else:
                u[k] = (u.get(k, 0) + c) % p
        return k0 % p, {k: c for k, c in u.items() if c}

    for v, idx in sol.dependent:           # elimination order: a definition may mention later ones
        c = unk.pop(v, 0)
        if not c:
            continue
        A, B, C = cons_reduced[idx]
        a0, au = side(A)
        b0, bu = side(B)
        c0, cu = side(C)
        if au and bu:
            return None                     # quadratic in the unknowns
        # A*B = C  ->  cv*v = (a0*b0 + a0*bu + b0*au) - c0 - (cu without v)
        cv = cu.pop(v)
        inv = pow(cv, -1, p)
        k0 = (a0 * b0 - c0) * inv % p
        const += c * k0
        for src, f in ((bu, a0), (au, b0)):
            for w, cw in src.items():
                unk[w] = (unk.get(w, 0) + c * cw * f * inv) % p
        for w, cw in cu.items():
            unk[w] = (unk.get(w, 0) - c * cw * inv) % p
    for v in [v for v in unk if v in sol.affine]:
        c = unk.pop(v)
        k, deps = sol.affine[v]
        const += c * k
        for f, cf in deps.items():
            unk[f] = (unk.get(f, 0) + c * cf) % p
    return const % p, {k: c for k, c in unk.items() if c % p}
