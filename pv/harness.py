"""Binding of the recorder to the real pysnark code, reset protocol, object walking."""
import os
import sys

from . import recorder as _rec

TREE = os.environ.get("PYSNARK_TREE", "/repo")

R = None            # the recorder module in effect
rt = None           # pysnark.runtime
boolean = None
fixedpoint = None
branching = None
notes = []


def _ensure_tree_on_path():
    # pysnark is installed editable -> /repo; an explicit PYSNARK_TREE overrides it.
    if TREE not in sys.path:
        sys.path.insert(0, TREE)


def bind(p=_rec.BN128, name="pysnark.nobackend", sites=False):
    """Inject the recorder and import pysnark (first call only); later calls re-parameterise."""
    global R, rt, boolean, fixedpoint, branching
    if R is not None:
        R.p = p
        R.want_sites = sites
        reset()
        return R
    _ensure_tree_on_path()
    os.environ.pop("PYSNARK_BACKEND", None)
    for k in list(sys.modules):
        if k == "pysnark" or k.startswith("pysnark."):
            raise RuntimeError("pysnark imported before harness.bind: " + k)
    R = _rec.make(p, name, sites)
    import pysnark.runtime as _rt
    import pysnark
    if not os.path.realpath(pysnark.__file__).startswith(os.path.realpath(TREE) + os.sep):
        raise RuntimeError("pysnark imported from %s, not from %s" % (pysnark.__file__, TREE))
    rt = _rt
    if rt.backend is not R:
        # a changed selection logic defeated the injection: re-bind by hand and say so
        notes.append("recorder re-bound by hand (runtime.backend was %r / %r)" % (
            getattr(rt.backend, "__name__", None), rt.backend_name))
        rt.backend = R
        rt.LinComb.ZERO = rt.LinComb(0, R.zero())
        rt.LinComb.ONE = rt.LinComb(1, R.one())
        rt.LinComb.ONE_SAFE = rt.LinComb.ONE
    import atexit
    # the exit hook would call backend.prove(); harmless on the recorder, but keep output clean
    rt.autoprove = True
    import pysnark.boolean as _b
    import pysnark.fixedpoint as _f
    if getattr(_f, "backend", R) is not R:
        _f.backend = R
    import pysnark.branching as _br
    boolean, fixedpoint, branching = _b, _f, _br
    global _DEF_BITLEN, _DEF_RES
    _DEF_BITLEN, _DEF_RES = rt.bitlength, _f.resolution
    return R


_DEF_BITLEN = 16
_DEF_RES = 8


def triple():
    return (rt.guard, rt._ignore_errors, rt.LinComb.ONE)


def triple_clean():
    return rt.guard is None and rt._ignore_errors is False and rt.LinComb.ONE is rt.LinComb.ONE_SAFE


def reset(bitlength=None, resolution=None):
    """Clean state between executions (live LinComb objects cannot be copied: re-execute)."""
    R.reset()
    rt.guard = None
    rt._ignore_errors = False
    rt.LinComb.ONE = rt.LinComb.ONE_SAFE
    rt.num_constraints = 0
    rt.bitlength = _DEF_BITLEN if bitlength is None else bitlength
    if fixedpoint is not None:
        fixedpoint.resolution = _DEF_RES if resolution is None else resolution


def secrets_in(obj, out=None, depth=0):
    """All LinComb objects reachable from a return value (lists, tuples, dicts, typed wrappers,
    Array)."""
    if out is None:
        out = []
    if depth > 6:
        return out
    if isinstance(obj, rt.LinComb):
        out.append(obj)
    elif isinstance(obj, (boolean.LinCombBool, fixedpoint.LinCombFxp)):
        out.append(obj.lc)
    elif isinstance(obj, (list, tuple)):
        for x in obj:
            secrets_in(x, out, depth + 1)
    elif isinstance(obj, dict):
        for x in obj.values():
            secrets_in(x, out, depth + 1)
    elif hasattr(obj, "arr") and isinstance(getattr(obj, "arr"), list):
        for x in obj.arr:
            secrets_in(x, out, depth + 1)
    return out


def plain(obj):
    """Python-visible value of a return value (no constraints added, unlike .val())."""
    if isinstance(obj, rt.LinComb):
        return obj.value
    if isinstance(obj, boolean.LinCombBool):
        return obj.lc.value
    if isinstance(obj, fixedpoint.LinCombFxp):
        return ("fxp", obj.lc.value)
    if isinstance(obj, list):
        return [plain(x) for x in obj]
    if isinstance(obj, tuple):
        return tuple(plain(x) for x in obj)
    if hasattr(obj, "arr") and isinstance(getattr(obj, "arr"), list):
        return [plain(x) for x in obj.arr]
    return obj


def value_wire_mismatches(obj):
    """C04 invariant: list of (value, wire value) for every secret reachable from obj whose
    reported value is not congruent to its wire expression on the recorded witness."""
    bad = []
    p = R.p
    for lc in secrets_in(obj):
        if not isinstance(lc.value, int):
            bad.append((repr(lc.value), "non-int"))
            continue
        try:
            w = R.ev(lc.lc)
        except Exception as ex:  # noqa: BLE001  (recorder: StaleVariable - a wire of an earlier execution)
            if type(ex).__name__ != "StaleVariable":
                raise
            bad.append((lc.value, "wire of an earlier run"))
            continue
        if (lc.value - w) % p:
            bad.append((lc.value, w))
    return bad


# --------------------------------------------------------------------------------------------
# running the same explorers against a real list-based backend (snarkjs / zkinterface family)

class ListBackendAdapter:
    """Presents pysnark.snarkjsbackend / pysnark.zkinterface.backend* (module-level lists
    pubvals / privvals / constraints) through the recorder's inspection interface."""
    IS_RECORDER = False

    def __init__(self, mod):
        self.mod = mod
        self.want_sites = False
        self.sites = []

    @property
    def p(self):
        return self.mod.get_modulus()

    @p.setter
    def p(self, v):
        if v != self.mod.get_modulus():
            raise RuntimeError("cannot change the field of a real backend")

    @property
    def vars(self):
        return [("pub", v) for v in self.mod.pubvals] + [("priv", v) for v in self.mod.privvals]

    @property
    def cons(self):
        return [(a.lc, b.lc, c.lc) for a, b, c in self.mod.constraints]

    def reset(self):
        del self.mod.pubvals[:]
        del self.mod.privvals[:]
        del self.mod.constraints[:]

    def _val(self, k):
        if k == 0:
            return 1
        return self.mod.pubvals[k - 1] if k > 0 else self.mod.privvals[-k - 1]

    def ev(self, lc, asg=None):
        d = lc.lc if hasattr(lc, "lc") else lc
        return sum(c * self._val(k) for k, c in d.items()) % self.p

    def unsatisfied(self, start=0, asg=None):
        bad = []
        for i, (a, b, c) in enumerate(self.mod.constraints[start:], start):
            if (self.ev(a) * self.ev(b) - self.ev(c)) % self.p:
                bad.append(i)
        return bad

    def canon_lc(self, d):
        p = self.p
        return tuple(sorted((k, c % p) for k, c in d.items() if c % p))

    def canonical_trace(self, start_var=0, start_con=0):
        return ranked_trace(self)


def ranked_trace(R_=None, start_con=0):
    """Canonical trace with variables named (kind, rank within kind) so that backends that number
    public and private variables separately can be compared with the recorder."""
    R_ = R_ or R
    p = R_.p
    if getattr(R_, "IS_RECORDER", False):
        rank, cnt = {0: ("one", 0)}, {"pub": 0, "priv": 0}
        for i, (k, _) in enumerate(R_.vars, 1):
            cnt[k] += 1
            rank[i] = (k, cnt[k])
        cons = R_.cons[start_con:]
        name = lambda k: rank[k]
        npub, npriv = cnt["pub"], cnt["priv"]
    else:
        cons = [(a.lc, b.lc, c.lc) for a, b, c in R_.mod.constraints[start_con:]]
        name = lambda k: ("one", 0) if k == 0 else (("pub", k) if k > 0 else ("priv", -k))
        npub, npriv = len(R_.mod.pubvals), len(R_.mod.privvals)
    out = []
    for tr in cons:
        out.append(tuple(tuple(sorted((name(k), c % p) for k, c in d.items() if c % p)) for d in tr))
    return (npub, npriv, tuple(out))


def bind_real(modname, backend_name=None):
    """Import a real list-based backend first (stage 1 of the selection picks it up), then pysnark."""
    global R, rt, boolean, fixedpoint, branching, _DEF_BITLEN, _DEF_RES
    import importlib
    _ensure_tree_on_path()
    os.environ.pop("PYSNARK_BACKEND", None)
    mod = importlib.import_module(modname)
    import pysnark.runtime as _rt
    rt = _rt
    if rt.backend is not mod:
        raise RuntimeError("pre-imported %s not selected (got %s)" % (modname, rt.backend_name))
    rt.autoprove = False
    try:
        rt.backend.process_snark = None
    except Exception:
        pass
    import pysnark.boolean as _b
    import pysnark.fixedpoint as _f
    import pysnark.branching as _br
    boolean, fixedpoint, branching = _b, _f, _br
    _DEF_BITLEN, _DEF_RES = rt.bitlength, _f.resolution
    R = ListBackendAdapter(mod)
    return R
