"""Binding of the recorder to the real pysnark code, reset protocol, object walking."""
import os
import sys

from . import recorder as _rec

TREE = os.environ.get("PYSNARK_TREE", "/repo")

R = None            # the recorder module in effect
rt = None           # pysnark.runtime
boolean = None
fixedpoint = None
branching = None
notes = []


def _ensure_tree_on_path():
    # pysnark is installed editable -> /repo; an explicit PYSNARK_TREE overrides it.
    if TREE not in sys.path:
        sys.path.insert(0, TREE)


def bind(p=_rec.BN128, name="pysnark.nobackend", sites=False):
    """Inject the recorder and import pysnark (first call only); later calls re-parameterise."""
    global R, rt, boolean, fixedpoint, branching
    if R is not None:
        R.p = p
        R.want_sites = sites
        reset()
        return R
    _ensure_tree_on_path()
    os.environ.pop("PYSNARK_BACKEND", None)
    for k in list(sys.modules):
        if k == "pysnark" or k.startswith("pysnark."):
            raise RuntimeError("pysnark imported before harness.bind: " + k)
    R = _rec.make(p, name, sites)
    import pysnark.runtime as _rt
    import pysnark
    if not os.path.realpath(pysnark.__file__).startswith(os.path.realpath(TREE) + os.sep):
        raise RuntimeError("pysnark imported from %s, not from %s" % (pysnark.__file__, TREE))
    rt = _rt
    if rt.backend is not R:
        # a changed selection logic defeated the injection: re-bind by hand and say so
        notes.append("recorder re-bound by hand (runtime.backend was %r / %r)" % (
            getattr(rt.backend, "__name__", None), rt.backend_name))
        rt.backend = R
        rt.LinComb.ZERO = rt.LinComb(0, R.zero())
        rt.LinComb.ONE = rt.LinComb(1, R.one())
        rt.LinComb.ONE_SAFE = rt.LinComb.ONE
    import atexit
    # the exit hook would call backend.prove(); harmless on the recorder, but keep output clean
    rt.autoprove = True
    import pysnark.boolean as _b
    import pysnark.fixedpoint as _f
    if getattr(_f, "backend", R) is not R:
        _f.backend = R
    import pysnark.branching as _br
    boolean, fixedpoint, branching = _b, _f, _br
    global _DEF_BITLEN, _DEF_RES
    _DEF_BITLEN, _DEF_RES = rt.bitlength, _f.resolution
    return R


_DEF_BITLEN = 16
_DEF_RES = 8


def triple():
    return (rt.guard, rt._ignore_errors, rt.LinComb.ONE)


def triple_clean():
    return rt.guard is None and rt._ignore_errors is False and rt.LinComb.ONE is rt.LinComb.ONE_SAFE


def reset(bitlength=None, resolution=None):
    """Clean state between executions (live LinComb objects cannot be copied: re-execute)."""
    R.reset()
    rt.guard = None
    rt._ignore_errors = False
    rt.LinComb.ONE = rt.LinComb.ONE_SAFE
    rt.num_constraints = 0
    rt.bitlength = _DEF_BITLEN if bitlength is None else bitlength
    if fixedpoint is not None:
        fixedpoint.resolution = _DEF_RES if resolution is None else resolution


def secrets_in(obj, out=None, depth=0):
    """All LinComb objects reachable from a return value (lists, tuples, dicts, typed wrappers,
    Array)."""
    if out is None:
        out = []
    if depth > 6:
        return out
    if isinstance(obj, rt.LinComb):
        out.append(obj)
    elif isinstance(obj, (boolean.LinCombBool, fixedpoint.LinCombFxp)):
        out.append(obj.lc)
    elif isinstance(obj, (list, tuple)):
        for x in obj:
            secrets_in(x, out, depth + 1)
    elif isinstance(obj, dict):
        for x in obj.values():
            secrets_in(x, out, depth + 1)
    elif hasattr(obj, "arr") and isinstance(getattr(obj, "arr"), list):
        for x in obj.arr:
            secrets_in(x, out, depth + 1)
    return out


def plain(obj):
    """Python-visible value of a return value (no constraints added, unlike .val())."""
    if isinstance(obj, rt.LinComb):
        return obj.value
    if isinstance(obj, boolean.LinCombBool):
        return obj.lc.value
    if isinstance(obj, fixedpoint.LinCombFxp):
        return ("fxp", obj.lc.value)
    if isinstance(obj, list):
        return [plain(x) for x in obj]
    if isinstance(obj, tuple):
        return tuple(plain(x) for x in obj)
    if hasattr(obj, "arr") and isinstance(getattr(obj, "arr"), list):
        return [plain(x) for x in obj.arr]
    return obj


def value_wire_mismatches(obj):
    """C04 invariant: list of (value, wire value) for every secret reachable from obj whose
    reported value is not congruent to its wire expression on the recorded witness."""
    bad = []
    p = R.p
    for lc in secrets_in(obj):
        if not isinstance(lc.value, int):
            bad.append((repr(lc.value), "non-int"))
            continue
        w = R.ev(lc.lc)
        if (lc.value - w) % p:
            bad.append((lc.value, w))
    return bad
