"""E4: block-program enumerator with native twins.

Programs are generated from a grammar and emitted as Python source twice: once with pysnark's
oblivious constructs on secret values, once with native control flow on plain integers."""
import itertools

ASSIGNS = [("x", "x+1"), ("y", "y*2"), ("x", "x+y"), ("y", "y*y"), ("x", "3"), ("y", "x"), ("x", "x*2"), ("y", "y+1")]
CONDS = ["x<y", "x==1", "b", "~b", "b&(x<=y)"]
LOOP_ASSIGNS = [("x", "x+i"), ("y", "y+1"), ("x", "x*2"), ("y", "y+x")]


def cond_src(c, obliv):
    if obliv:
        return {"x<y": "_.x < _.y", "x==1": "_.x == 1", "b": "B", "~b": "~B", "b&(x<=y)": "B & (_.x <= _.y)",
                "y==3": "_.y == 3", "x>=4": "_.x >= 4"}[c]
    return {"x<y": "x < y", "x==1": "x == 1", "b": "b", "~b": "(not b)", "b&(x<=y)": "(b and x <= y)",
            "y==3": "y == 3", "x>=4": "x >= 4"}[c]


def rhs_src(r, obliv):
    import re
    if not obliv:
        r = re.sub(r"m([01])0", r"m[\1][0]", r)
        r = re.sub(r"q([01])([01])", r"q[\1][\2]", r)
        r = re.sub(r"a([01])", r"a[\1]", r)
        return re.sub(r"l([01])", r"l[\1]", r).replace("F", "f")
    out = r
    for v in ("x", "y", "k", "w"):
        out = out.replace(v, "_." + v)
    out = re.sub(r"m([01])0", r"_.m[\1][0]", out)
    out = re.sub(r"q([01])([01])", r"_.q[\1][\2]", out)
    out = re.sub(r"a([01])", r"_.a[\1]", out)
    return re.sub(r"l([01])", r"_.l[\1]", out)


def _twin_div(r):
    """Native twin: route // and % through helpers that skip negative divisors (known finding
    KF-C05-negdiv: the library raises for every negative divisor)."""
    import re
    r = re.sub(r"(\w+)//(\([^()]*\)|\w+)", r"_fd(\1, \2)", r)
    r = re.sub(r"(\w+)%(\([^()]*\)|\w+)", r"_md(\1, \2)", r)
    return r


class Emitter:
    def __init__(self, obliv, explicit_ctx):
        self.obliv = obliv
        self.ctx = ", ctx=_" if explicit_ctx else ""
        self.ctx0 = "ctx=_" if explicit_ctx else ""
        self.lines = []
        self.loopvar = 0

    def emit(self, ind, s):
        self.lines.append("    " * ind + s)

    def block(self, stmts, ind, loopvar=None):
        if not stmts:
            self.emit(ind, "pass")
        for st in stmts:
            self.stmt(st, ind, loopvar)

    def stmt(self, st, ind, loopvar):
        o = self.obliv
        k = st[0]
        if k == "assign":
            rhs = st[2]
            if loopvar and "i" in rhs:
                rhs = rhs.replace("i", loopvar)
            elif "i" in rhs:
                rhs = rhs.replace("+i", "+1")
            tgt = ("_." + st[1]) if o else st[1]
            if st[1] in ("l0", "l1"):
                # element of a list-valued variable, modified in place
                tgt = ("_.l[%s]" if o else "l[%s]") % st[1][1]
            elif st[1] in ("m00", "m10"):
                # element of a NESTED list, modified in place
                tgt = ("_.m[%s][0]" if o else "m[%s][0]") % st[1][1]
            elif st[1] == "l" and st[2] == "l2":
                # the whole list variable takes the value of another list variable (a fresh list in the native twin)
                self.emit(ind, "_.l = _.l2" if o else "l = l2")
                return
            elif st[1] in ("q01", "q10", "q11"):
                # element of a 2-D Array object, written in place: q01 as q[0][1], q10 through the tuple form q[1, 0]
                i_, j_ = st[1][1], st[1][2]
                if st[1] == "q10":
                    tgt = ("_.q[%s, %s]" if o else "q[%s][%s]") % (i_, j_)
                else:
                    tgt = ("_.q[%s][%s]" if o else "q[%s][%s]") % (i_, j_)
            elif st[1] in ("a0", "a1"):
                # element of an Array object held in the context, modified in place
                tgt = ("_.a[%s]" if o else "a[%s]") % st[1][1]
            self.emit(ind, "%s = %s" % (tgt, rhs_src(rhs, o)))
        elif k == "lazy":
            _, var, c, rt_, rf_ = st
            if o:
                self.emit(ind, "_.%s = if_then_else(%s, lambda: %s, lambda: %s)" % (var, cond_src(c, True), rhs_src(rt_, True), rhs_src(rf_, True)))
            else:
                self.emit(ind, "%s = (%s) if %s else (%s)" % (var, _twin_div(rt_), cond_src(c, False), _twin_div(rf_)))
        elif k == "if":
            arms, els = st[1], st[2]
            for j, (c, blk) in enumerate(arms):
                if o:
                    if j == 0:
                        self.emit(ind, "if _if(%s%s):" % (cond_src(c, True), self.ctx))
                    else:
                        self.emit(ind, "if _elif(lambda: %s%s):" % (cond_src(c, True), self.ctx))
                else:
                    self.emit(ind, "%s %s:" % ("if" if j == 0 else "elif", cond_src(c, False)))
                self.block(blk, ind + 1, loopvar)
            if els is not None:
                self.emit(ind, ("if _else(%s):" % self.ctx0) if o else "else:")
                self.block(els, ind + 1, loopvar)
            if o:
                self.emit(ind, "_endif(%s)" % self.ctx0)
        elif k == "while":
            _, c, mx, blk, brk = st
            self.loopvar += 1
            iv = "i%d" % self.loopvar
            self.emit(ind, "%s = 0" % iv)
            if c == "i!=n":
                cs = ("%s != N" % iv) if o else ("%s != n" % iv)
            else:
                cs = cond_src(c, o)
            if o:
                self.emit(ind, "while _while(%s%s) and %s != %d:" % (cs, self.ctx, iv, mx))
            else:
                self.emit(ind, "while %s and %s != %d:" % (cs, iv, mx))
            self.block(blk, ind + 1, iv)
            self.emit(ind + 1, "%s += 1" % iv)
            if brk is not None:
                if o:
                    self.emit(ind + 1, "_breakif(%s%s)" % (cond_src(brk, True), self.ctx))
                else:
                    self.emit(ind + 1, "if %s: break" % cond_src(brk, False))
            if o:
                self.emit(ind, "_endwhile(%s)" % self.ctx0)
        elif k == "for2":
            # two-argument form: public start, secret stop, public maximum
            _, start, mx, blk, chk = st
            self.loopvar += 1
            iv = "i%d" % self.loopvar
            if o:
                self.emit(ind, "for %s in _range(%d, N, max=%d%s%s):" % (iv, start, mx, self.ctx, ", checkstopmax=True" if chk else ""))
            else:
                self.emit(ind, "for %s in range(%d, min(n, %d)):" % (iv, start, mx))
            self.block(blk, ind + 1, iv)
            if o:
                self.emit(ind, "_endfor(%s)" % self.ctx0)
        elif k == "for":
            _, mx, blk, chk = st[:4]
            brk = st[4] if len(st) > 4 else None
            self.loopvar += 1
            iv = "i%d" % self.loopvar
            if o:
                self.emit(ind, "for %s in _range(N, max=%d%s%s):" % (iv, mx, self.ctx, ", checkstopmax=True" if chk else ""))
            else:
                self.emit(ind, "for %s in range(min(n, %d)):" % (iv, mx))
            self.block(blk, ind + 1, iv)
            if brk is not None:
                # break out of a for loop: on a secret condition, or on a PUBLIC one ("i==1": the loop index)
                if brk.startswith("i=="):
                    if o:
                        self.emit(ind + 1, "_breakif(%s == %s%s)" % (iv, brk[3:], self.ctx))
                    else:
                        self.emit(ind + 1, "if %s == %s: break" % (iv, brk[3:]))
                elif o:
                    self.emit(ind + 1, "_breakif(%s%s)" % (cond_src(brk, True), self.ctx))
                else:
                    self.emit(ind + 1, "if %s: break" % cond_src(brk, False))
            if o:
                self.emit(ind, "_endfor(%s)" % self.ctx0)


def emit_program(stmts, obliv, explicit_ctx=True):
    e = Emitter(obliv, explicit_ctx)
    if obliv:
        e.emit(0, "def prog(X, Y, B, N, F=None):")
        e.emit(1, "_ = BranchingValues()")
        e.emit(1, "_.x = X")
        e.emit(1, "_.y = Y")
        e.emit(1, "_.l = [X, Y]")
        e.emit(1, "_.l2 = [Y, Y]")
        e.emit(1, "_.k = 5")            # variables that start as plain Python constants (int, float)
        e.emit(1, "_.w = 1.5")
        e.emit(1, "_.m = [[X], [Y]]")   # mutable containers below the top level
        e.emit(1, "_.a = Array([X, Y])")
        e.emit(1, "_.q = Array([Array([X, Y]), Array([Y, X])])")
        e.block(stmts, 1)
        e.emit(1, "return _.x, _.y, _, _.l, _.k, _.w, _.m, _.a, _.q, _.l2")
    else:
        e.emit(0, "def prog(x, y, b, n, f=None):")
        e.emit(1, "l = [x, y]")
        e.emit(1, "l2 = [y, y]")
        e.emit(1, "k = 5")
        e.emit(1, "w = 1.5")
        e.emit(1, "m = [[x], [y]]")
        e.emit(1, "a = [x, y]")
        e.emit(1, "q = [[x, y], [y, x]]")
        e.block(stmts, 1)
        e.emit(1, "return x, y, l, k, w, m, a, q, l2")
    return "\n".join(e.lines) + "\n"


def uses(stmts):
    """Which inputs a program reads: set of 'b', 'n'."""
    s = repr(stmts)
    out = set()
    if "'b'" in s or "~b" in s or "b&" in s:
        out.add("b")
    if "i!=n" in s or "'for'" in s or "'for2'" in s:
        out.add("n")
    return out


# ------------------------------------------------------------------------------------------------
# enumeration

LS_L1I = ("assign", "l1", "l1+i")


def programs(level):
    """level 0: quick (nesting 1, short blocks); level 1: thorough (nesting 2, loops inside
    conditionals and vice versa)."""
    A = [("assign",) + a for a in ASSIGNS]
    A4 = A[:4]
    LA = [("assign",) + a for a in LOOP_ASSIGNS]
    out = []

    def blocks1(assigns, maxlen=2):
        bl = [[a] for a in assigns]
        if maxlen >= 2:
            bl += [[a, b] for a in assigns[:3] for b in assigns[:3] if a != b]
        return bl

    # --- conditionals, nesting 1
    B1 = blocks1(A4)
    for c in CONDS:
        for blk in blocks1(A):
            out.append([("if", [(c, blk)], None)])
        for blk in B1:
            for els in B1[:4]:
                out.append([("if", [(c, blk)], els)])
        for c2 in ("x==1", "~b"):
            for blk in B1[:4]:
                for blk2 in B1[2:5]:
                    out.append([("if", [(c, blk), (c2, blk2)], None)])
                    out.append([("if", [(c, blk), (c2, blk2)], B1[1])])
    # --- chains with TWO elif arms (and an else): the condition carried on to later arms is a running conjunction
    for c1 in ("x<y", "b", "x==1"):
        for c2 in ("x==1", "~b", "x<y"):
            for c3 in ("b", "y==3", "x>=4"):
                if len({c1, c2, c3}) < 3:
                    continue
                out.append([("if", [(c1, [A[0]]), (c2, [A[1]]), (c3, [A[2]])], [A[4]])])
                out.append([("if", [(c1, [A[4]]), (c2, [A[0]]), (c3, [A[3]])], None)])
    # --- loops, nesting 1
    for mx in (2, 3):
        for blk in blocks1(LA):
            for chk in (False, True):
                out.append([("for", mx, blk, chk)])
            for c in ("i!=n", "x<y"):
                for brk in (None, "y==3", "b", "x>=4"):
                    out.append([("while", c, mx, blk, brk)])
    # --- a list variable assigned AS A WHOLE from another list variable inside branches / loops
    WL = ("assign", "l", "l2")
    for c in CONDS:
        out.append([("if", [(c, [WL])], None)])
        out.append([("if", [(c, [A[0]])], [WL])])
        out.append([("if", [(c, [WL, ("assign", "l0", "l0+1")])], None)])
    out.append([("for", 2, [WL], False)])
    out.append([("while", "i!=n", 2, [WL, LA[0]], "b")])
    # --- for loops left by a break (secret conditions; public conditions on the loop index)
    for mx in (3, 4):
        for blk in blocks1(LA)[:4]:
            for brk in ("b", "y==3", "x>=4", "i==0", "i==1", "i==2"):
                out.append([("for", mx, blk, False, brk)])
        out.append([("for", mx, [LA[0]], True, "i==1")])
        out.append([("if", [("b", [("for", mx, [LA[1]], False, "i==1")])], [A[0]])])
    # --- two-argument _range(start, secret stop, max)
    for start, mx in ((1, 2), (1, 3), (2, 3), (2, 4)):
        for blk in blocks1(LA)[:6]:
            for chk in (False, True):
                out.append([("for2", start, mx, blk, chk)])
        out.append([("for2", start, mx, [LS_L1I], False)])
        out.append([("if", [("b", [("for2", start, mx, [LA[0]], False)])], [A[1]])])
    # --- statement sequences at top level
    for a in A4:
        for c in CONDS[:3]:
            out.append([a, ("if", [(c, [A[1]])], [A[2]])])
            out.append([("if", [(c, [A[0]])], None), a])
        out.append([a, ("for", 2, [LA[0]], False)])
        out.append([("while", "i!=n", 2, [LA[2]], "y==3"), a])
    # --- selection with lazily evaluated branches (only the taken branch may be valid)
    LZ = [("x", "x+1", "y*2"), ("y", "x*y", "y-x"), ("x", "x//y", "x+y"), ("y", "x%(y*y+1)", "x//(y-1)"), ("x", "x*x*x", "y//(x*x+2)")]
    for c in CONDS:
        for var, a, b in LZ:
            out.append([("lazy", var, c, a, b)])
            out.append([("lazy", var, c, a, b), ("if", [("x<y", [A[0]])], [A[1]])])
            out.append([("if", [("b", [("lazy", var, c, a, b)])], None)])
            out.append([("for", 2, [("lazy", var, c, a, b)], False)])
    # --- list-valued variable modified in place inside branches and loops
    LS = [("assign", "l0", "l0+1"), ("assign", "l1", "l0+l1"), ("assign", "l0", "x"), ("assign", "l1", "l1*2"), ("assign", "l0", "7")]
    for c in CONDS:
        for a in LS:
            out.append([("if", [(c, [a])], None)])
            out.append([("if", [(c, [a])], [LS[1]])])
            out.append([("if", [(c, [A[0]]), ("x==1", [a])], [LS[3], A[1]])])
    for mx in (2, 3):
        for a in LS:
            for chk in (False, True):
                out.append([("for", mx, [a], chk)])
                out.append([("for", mx, [a, ("assign", "l1", "l1+i")], chk)])
            for c in ("i!=n", "x<y"):
                for brk in (None, "y==3", "b"):
                    out.append([("while", c, mx, [a], brk)])
                    out.append([("while", c, mx, [("assign", "x", "x+1"), a], brk)])
    # --- variables that start as plain Python constants and are assigned integer / fixed-point secrets
    KW = [("assign", "k", "x+1"), ("assign", "k", "k*2"), ("assign", "k", "7"), ("assign", "w", "F"), ("assign", "w", "w+F"),
          ("assign", "w", "F*2"), ("assign", "w", "F-w")]
    # (not in the alphabet: a branch that assigns a plain float to a variable still holding a plain float -
    #  if_then_else of two Python floats is refused with a TypeError for every condition, a type limitation)
    for a in KW:
        for c in CONDS:
            out.append([("if", [(c, [a])], None)])
            out.append([("if", [(c, [A[0]])], [a])])
            out.append([("if", [(c, [a])], [KW[4] if a[1] == "w" else KW[1]])])
        out.append([("if", [("x<y", [A[0]]), ("b", [a])], None)])
        for mx in (2, 3):
            out.append([("for", mx, [a], False)])
            out.append([("while", "i!=n", mx, [a], "b")])
            out.append([("while", "x<y", mx, [a, A[0]], None)])
        out.append([("if", [("b", [("for", 2, [a], False)])], None)])
    # --- containers below the top level (nested list, Array object) modified in place
    NM = [("assign", "m00", "m00+1"), ("assign", "m10", "x"), ("assign", "m10", "m00+m10"), ("assign", "a0", "a0+1"),
          ("assign", "a1", "a0*2"), ("assign", "a0", "y"), ("assign", "q01", "q01+1"), ("assign", "q10", "x+q11"), ("assign", "q11", "7")]
    for a in NM:
        for c in CONDS:
            out.append([("if", [(c, [a])], None)])
            out.append([("if", [(c, [A[0]])], [a])])
            out.append([("if", [(c, [a])], [NM[1] if a[1][0] == "m" else (NM[4] if a[1][0] == "a" else NM[8])])])
        for mx in (2, 3):
            out.append([("for", mx, [a], False)])
            out.append([("while", "i!=n", mx, [a], "b")])
    # --- loops directly inside loops (nesting 2), with a statement after the inner loop
    for c_out in ("i!=n", "x<y"):
        for mx_out in (2, 3):
            out.append([("while", c_out, mx_out, [("while", "x<y", 2, [LA[1]], None), LA[0]], None)])
            out.append([("while", c_out, mx_out, [("while", "i!=n", 2, [LA[0]], None), LA[1]], "b")])
            out.append([("while", c_out, mx_out, [("for", 2, [LA[1]], False), LA[0]], None)])
            out.append([("for", mx_out, [("while", "x<y", 2, [LA[1]], None), LA[0]], False)])
    # --- nesting 3 (a few programs; the complete family to nesting 2 is in the thorough tier)
    out.append([("while", "i!=n", 2, [("while", "x<y", 2, [("if", [("b", [A[0]])], None), LA[1]], None), LA[0]], None)])
    out.append([("for", 2, [("if", [("x<y", [("while", "i!=n", 2, [LA[0]], None)])], [A[1]]), LA[1]], False)])
    out.append([("if", [("b", [("for", 2, [("if", [("x<y", [A[0]])], None)], False)])], [("while", "x<y", 2, [LA[1]], None)])])
    out.append([("while", "x<y", 3, [("while", "i!=n", 2, [("while", "x<y", 2, [LA[1]], None)], None), LA[0]], "b")])
    out.append([("if", [("x<y", [("if", [("b", [("if", [("x==1", [A[0]])], [A[1]])])], [A[2]])])], [A[3]])])
    # --- long loops (beyond any fixed number of iterations a cache / refresh / batching scheme might assume)
    for mx in (70,) if level == 0 else (70, 130):
        for a in (("assign", "w", "w+F"), ("assign", "x", "x+1"), ("assign", "l0", "l0+1"), ("assign", "k", "k+1")):
            out.append([("for", mx, [a], False)])
            out.append([("while", "i!=n", mx, [a], "b")])
        out.append([("while", "i!=n", mx, [("assign", "w", "w+F"), ("if", [("b", [("assign", "x", "x+1")])], None)], None)])
    if level >= 1:
        # nesting 2: if in if, loop in if, if in loop, loop in loop
        inner_ifs = [("if", [(c, [a])], e) for c in ("x<y", "b", "x==1") for a in A4[:2] for e in (None, [A[4]])]
        inner_loops = [("for", 2, [LA[0]], False), ("for", 3, [LA[1]], True), ("while", "i!=n", 2, [LA[2]], None),
                       ("while", "x<y", 3, [LA[0]], "b"), ("while", "i!=n", 3, [LA[3]], "y==3")]
        for c in CONDS:
            for inner in inner_ifs + inner_loops:
                out.append([("if", [(c, [inner])], None)])
                out.append([("if", [(c, [A[0], inner])], [A[1]])])
                out.append([("if", [(c, [A[2]])], [inner, A[3]])])
                out.append([("if", [(c, [A[0]]), ("~b", [inner])], [A[1]])])
        for mx in (2, 3):
            for inner in inner_ifs + inner_loops[:3]:
                for chk in (False, True):
                    out.append([("for", mx, [inner], chk)])
                    out.append([("for", mx, [LA[0], inner], chk)])
                for c in ("i!=n", "x<y"):
                    for brk in (None, "b", "x>=4"):
                        out.append([("while", c, mx, [inner], brk)])
                        out.append([("while", c, mx, [inner, LA[1]], brk)])
    return out
