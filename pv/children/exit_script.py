"""Script template run in a fresh interpreter by C18 (one run per point of the termination space).
argv[1] = JSON {backend, k, mode, caught, autoprove}.  It behaves like a user script: traces k
statements, then terminates in the requested way.  backend.prove is wrapped by a counter (harness
level, no change to pysnark)."""
import json
import os
import sys

cfg = json.loads(sys.argv[1])
if cfg.get("prehook"):
    # an exception hook installed by the environment (debugger, IDE, test runner) before pysnark is imported
    _prev_hook = sys.excepthook

    def _env_hook(t, v, tb):
        _prev_hook(t, v, tb)
    sys.excepthook = _env_hook
import pysnark.runtime as rt                      # backend chosen by PYSNARK_BACKEND in the environment
from pysnark.runtime import PubVal

_orig_prove = rt.backend.prove


def _counted_prove():
    with open("prove_calls", "a") as f:
        f.write("x")
    return _orig_prove()


rt.backend.prove = _counted_prove
if not cfg["autoprove"]:
    rt.autoprove = False
if cfg.get("operation"):
    rt.operation = cfg["operation"]          # a separate keygen / prove / verify step was requested
with open("backend_name", "w") as f:
    f.write(str(rt.backend_name))

if cfg["caught"] == "sysexit1":
    try:
        sys.exit(1)
    except SystemExit:
        pass
elif cfg["caught"] == "sysexit0":
    try:
        sys.exit(0)
    except SystemExit:
        pass
elif cfg["caught"] == "exception":
    try:
        raise ValueError("handled")
    except ValueError:
        pass
elif cfg["caught"] in ("thread-dies", "thread-ok"):
    # a helper thread of the program ends (by an uncaught exception of its own / normally); the main thread goes on
    import threading

    def _helper():
        if cfg["caught"] == "thread-dies":
            raise ValueError("helper thread failed")
    _t = threading.Thread(target=_helper)
    _t.start()
    _t.join()


def terminate(mode):
    if mode == "fall":
        return True
    if mode == "exit()":
        sys.exit()
    if mode == "exit(None)":
        sys.exit(None)
    if mode == "exit(0)":
        sys.exit(0)
    if mode == "exit(False)":
        sys.exit(False)
    if mode == "exit(1)":
        sys.exit(1)
    if mode == "exit(str)":
        sys.exit("giving up")
    if mode == "exit('')":
        sys.exit("")
    if mode == "exit([])":
        sys.exit([])
    if mode == "exit(2)":
        sys.exit(2)
    if mode == "ValueError":
        raise ValueError("boom")
    if mode == "KeyboardInterrupt":
        raise KeyboardInterrupt
    if mode == "raise SystemExit(0)":
        raise SystemExit(0)
    if mode == "raise SystemExit(1)":
        raise SystemExit(1)
    if mode == "builtin exit(0)":
        exit(0)
    if mode == "builtin exit(1)":
        exit(1)
    raise RuntimeError("unknown mode " + mode)


done = 0
NST = cfg.get("nstmts") or 3
for i in range(NST):
    if i == cfg["k"]:
        if terminate(cfg["mode"]):
            break
    if cfg.get("midfinal") is not None and i == cfg["midfinal"]:
        rt.final()                      # the program runs the proving step itself, then goes on tracing
        if cfg.get("midfinal_then") == "pub-only":
            PubVal(10 + i)              # only constraint-free growth until the end
            done += 1
            break
    v = PubVal(10 + i)
    if cfg.get("nstmts") and i > 0 and i % (3 + (cfg.get("shape") or 0)) != 1:
        w = v * (v + w + (i % 5))       # long scripts: constraints of varying size (1-3 terms per side), several mixes
    else:
        w = v * v
    done += 1
else:
    if cfg["k"] == NST:
        terminate(cfg["mode"])
