"""Fresh-interpreter probe for C19/C20: argv[1] = JSON {preimport: [module names], poseidon: bool}.
The environment (PYSNARK_BACKEND, PYTHONPATH with or without the shims, QAPTOOLS_BIN) is set by the
parent.  Prints one JSON line describing which backend is in effect."""
import importlib
import json
import os
import sys

cfg = json.loads(sys.argv[1])
out = {"preimport_errors": {}}
if cfg.get("ipython"):
    # interactive session (IPython / Jupyter): the builtin get_ipython exists
    import builtins
    builtins.get_ipython = lambda: None
for m in cfg.get("preimport", []):
    try:
        importlib.import_module(m)
    except Exception as ex:  # noqa: BLE001
        out["preimport_errors"][m] = type(ex).__name__
if cfg.get("late_env"):
    # the program imports a helper module of the package first and only THEN sets / removes PYSNARK_BACKEND
    helper, value = cfg["late_env"]
    importlib.import_module(helper)
    if value is None:
        os.environ.pop("PYSNARK_BACKEND", None)
    else:
        os.environ["PYSNARK_BACKEND"] = value
try:
    import pysnark.runtime as rt
except BaseException as ex:  # noqa: BLE001
    out["import_error"] = "%s: %s" % (type(ex).__name__, str(ex)[:200])
    print("@@" + json.dumps(out))
    sys.stdout.flush()
    os._exit(3)
rt.autoprove = False
b = rt.backend
out["backend_name"] = rt.backend_name
out["module"] = getattr(b, "__name__", None)
out["missing"] = [a for a in ("privval", "pubval", "zero", "one", "fieldinverse", "get_modulus", "add_constraint", "prove")
                  if not callable(getattr(b, a, None))]
try:
    out["modulus"] = str(b.get_modulus())
except Exception as ex:  # noqa: BLE001
    out["modulus"] = "error:" + type(ex).__name__
# where does a probe constraint go?
sinks = {}
def count(modname):
    m = sys.modules.get(modname)
    if m is None:
        return None
    if hasattr(m, "constraints"):
        return len(m.constraints)
    if hasattr(m, "pb"):
        return m.pb.num_constraints()
    return None
before = {nm: count(nm) for nm in ("pysnark.snarkjsbackend", "pysnark.zkinterface.backend", "pysnark.libsnark.backend")}
try:
    x = rt.PrivVal(3) * rt.PrivVal(4)
    out["probe_value"] = x.value
except Exception as ex:  # noqa: BLE001
    out["probe_error"] = type(ex).__name__
after = {nm: count(nm) for nm in before}
out["sink"] = [nm for nm in before if before[nm] is not None and after[nm] != before[nm]]
if os.path.exists("pysnark_eqs"):
    qb = sys.modules.get("pysnark.qaptools.backend")
    if qb is not None and qb.qape is not None:
        qb.qape.flush()
    if any(ln.rstrip().endswith(".") for ln in open("pysnark_eqs")):
        out["sink"].append("pysnark.qaptools.backend")
# the proof system the libsnark family will actually use: the flag that prove() / keygen / verify read lives in the BASE module
lb = sys.modules.get("pysnark.libsnark.backend")
if lb is not None:
    out["libsnark_base_use_groth"] = bool(getattr(lb, "use_groth", None))
if cfg.get("poseidon"):
    try:
        import pysnark.poseidon_hash as ph
        from pysnark.poseidon_constants import poseidon_constants as pc
        table = [k for k, v in pc.items() if v["round_constants"] is ph.round_constants]
        out["poseidon_table"] = table[0] if table else "?"
        out["poseidon_R_P"] = ph.R_P
    except BaseException as ex:  # noqa: BLE001
        out["poseidon_error"] = type(ex).__name__
print("@@" + json.dumps(out))
sys.stdout.flush()
os._exit(0)
