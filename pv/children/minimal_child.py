"""Fresh-interpreter scenarios with MINIMAL imports (what a short user script does), run by C17 / C20.
argv[1] = JSON {"scenario": ..., "tree": path}.  Prints one line '@@' + JSON."""
import importlib
import json
import os
import sys

cfg = json.loads(sys.argv[1])
VERIF = os.path.dirname(os.path.dirname(os.path.dirname(os.path.abspath(__file__))))
sys.path.insert(0, VERIF)
sys.path.insert(0, cfg["tree"])
os.environ.pop("PYSNARK_BACKEND", None)
out = {"scenario": cfg["scenario"]}

if cfg["scenario"] == "snark-only-runtime-imported":
    # a script that does nothing but `from pysnark.runtime import snark` and calls decorated functions with
    # float / bool / int arguments: every numeric argument and every secret result becomes a public value
    from pv import recorder as REC
    R = REC.make(REC.BN128, "pysnark.nobackend")
    from pysnark.runtime import snark
    import pysnark.runtime as rt
    rt.autoprove = False
    out["backend_is_recorder"] = rt.backend is R
    calls = []
    for name, fn, args in (("area", lambda w, h: w * h, (1.5, 2.5)), ("flag", lambda b: b, (True,)), ("mix", lambda x: [x, 0.5], (3,)),
                           ("scale", lambda x, f: x * f, (3, 0.25)), ("both", lambda f, b: [f + 1, b], (2.0, False))):
        n0 = len(R.vars)
        before = sorted(m for m in ("pysnark.fixedpoint", "pysnark.boolean") if m in sys.modules)
        try:
            ret = snark(fn)(*args)
            err = None
        except Exception as ex:  # noqa: BLE001
            ret, err = None, "%s: %s" % (type(ex).__name__, str(ex)[:100])
        calls.append({"name": name, "args": list(args), "loaded_before": before, "error": err,
                      "ret": repr(ret), "pubs": [v for k, v in R.vars[n0:] if k == "pub"]})
    out["calls"] = calls
    out["resolution"] = sys.modules["pysnark.fixedpoint"].resolution if "pysnark.fixedpoint" in sys.modules else None

elif cfg["scenario"] == "poseidon-first-import-inside-region":
    # the hash module is imported for the first time inside a secret-guarded region (lazy import inside a
    # branch), then used in live code: digests must equal the plain reference
    from pv import harness as H, recorder as REC, ref_poseidon as RP
    name, mod, p = cfg["name"], cfg["mod"], int(cfg["p"])
    H.bind(p, mod)
    rt, B = H.rt, H.boolean
    res = {}

    def lazy():
        res["ph"] = importlib.import_module("pysnark.poseidon_hash")
        if cfg.get("use_inside"):
            res["ph"].poseidon_hash([rt.PrivVal(1)])
        return rt.LinComb.ZERO
    rt.guarded(B.PrivValBool(int(cfg["guard"])))(lazy)()
    ph = res["ph"]
    from pysnark.poseidon_constants import poseidon_constants
    C = poseidon_constants[name]
    digests = []
    for msg in ([7], [7, 0], [1, 2, 3, 4], []):
        c0 = len(H.R.cons)
        o = ph.poseidon_hash([rt.PrivVal(v) for v in msg])
        want = RP.sponge_hash(list(msg), C, p)
        digests.append({"msg": msg, "equal_reference": [x.value % p for x in o] == want, "unsat": len(H.R.unsatisfied(c0)),
                        "mism": len(H.value_wire_mismatches(o))})
    out["digests"] = digests
    out["state_clean"] = H.triple_clean()

elif cfg["scenario"] == "real-backend-fxp-readback":
    # the real nobackend / snarkjs module selected through the environment: val() of a fixed-point number is the
    # represented number, whatever the backend's modulus (nobackend: a small placeholder)
    os.environ["PYSNARK_BACKEND"] = cfg["backend"]
    import pysnark.runtime as rt
    rt.autoprove = False
    from pysnark.fixedpoint import PrivValFxp, PubValFxp
    out["backend_name"] = rt.backend_name
    rows = []
    for v in (0.5, 19.5, 20.0, 39.0625, -20.0, 100.25, -3.75):
        for mk in ("priv", "pub", "computed"):
            try:
                x = PrivValFxp(v) if mk == "priv" else (PubValFxp(v) if mk == "pub" else PrivValFxp(v / 2) + PrivValFxp(v / 2))
                rows.append({"v": v, "how": mk, "val": x.val()})
            except Exception as ex:  # noqa: BLE001
                rows.append({"v": v, "how": mk, "error": "%s: %s" % (type(ex).__name__, str(ex)[:80])})
    out["rows"] = rows

print("@@" + json.dumps(out))
sys.stdout.flush()
os._exit(0)
