"""Child process: run the depth-1 programs of E1 against a REAL backend module (pre-imported so
that pysnark.runtime selects it) or against the recorder, and print one hash of the
kind-ranked canonical trace + outcome per (program, vector, mode).  Used to validate that the
recorder represents what a proof backend receives."""
import hashlib
import json
import os
import sys


def main():
    which, n = sys.argv[1], int(sys.argv[2])
    sys.path.insert(0, os.path.dirname(os.path.dirname(os.path.abspath(__file__))))
    from pv import harness as H, opseq as E, ops as O
    if which == "recorder":
        H.bind()
    else:
        H.bind_real(which)
    out = {}
    vals = [-(2 ** n + 1), -3, -1, 0, 1, 2, 3, 2 ** n - 1, 2 ** n]
    for prog in E.depth1_programs():
        name = O.expr_str(prog["expr"], prog["kinds"])
        for vec in E.input_vectors(prog, vals):
            for mode in E.MODES:
                o = E.execute(prog, vec, mode, n)
                tr = H.ranked_trace(H.R)
                h = hashlib.sha1(repr((o.status, o.exc, o.value, len(o.unsat), len(o.mism), tr)).encode()).hexdigest()[:16]
                out["%s|%s|%s" % (name, list(vec), mode)] = h
    if which == "recorder" and len(sys.argv) > 3 and sys.argv[3] == "blocks":
        # block programs too (their traces go through dicts and sets of variable NAMES): one fixed input each
        from pv import blocks
        from pv.checks import c09
        progs = blocks.programs(0)
        for i, stmts in enumerate(progs[:: 3]):
            try:
                fo, fn, so, sn = c09.compile_pair(stmts, i % 2 == 0)
            except Exception:  # noqa: BLE001
                continue
            H.reset(bitlength=c09.BITLEN)
            rt, B = H.rt, H.boolean
            X, Y, Bv, N = rt.PrivVal(1), rt.PrivVal(2), B.PrivValBool(1), rt.PrivVal(1)
            Fv = H.fixedpoint.PrivValFxp(c09.FVAL)
            nv0, nc0 = len(H.R.vars), len(H.R.cons)
            try:
                fo(X, Y, Bv, N, Fv)
                tr = repr(H.R.canonical_trace(nv0, nc0))
            except Exception as ex:  # noqa: BLE001
                tr = "raise " + type(ex).__name__
            out["block|%d" % (i * 3)] = hashlib.sha1(tr.encode()).hexdigest()[:16]
    sys.stdout.write(json.dumps(out))
    sys.stdout.flush()
    os._exit(0)


if __name__ == "__main__":
    main()
