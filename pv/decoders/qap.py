"""Reader/evaluator for the qaptools text files written by pysnark.qaptools.backend:
equation file grammar ([function] f call | [ioblock] ctx bn wires... | [external] ... | [glue] c1 b1 c2 b2 |
A * B = C [.] with A,B,C sequences of `coef name`), wire / io files (`name: value`), schedule and
per-function files.  Written from the file contents' grammar, independent of qapsplit."""


def read_values(path):
    out = {}
    dup = []
    for ln in open(path):
        ln = ln.strip()
        if not ln or ln.startswith("#"):
            continue
        nm, _, v = ln.partition(":")
        if nm in out:
            dup.append(nm)
        out[nm.strip()] = int(v.strip())
    return out, dup


def parse_sig(toks):
    toks = [t for t in toks if t != ""]
    if len(toks) % 2:
        raise ValueError("odd number of tokens in linear combination: %r" % (toks,))
    return [(int(toks[i]), toks[i + 1]) for i in range(0, len(toks), 2)]


def parse_eqs(text):
    """-> list of items: ("function", fname, call) | ("ioblock", ctx, bn, [wires]) | ("external", ...) |
    ("glue", c1, b1, c2, b2) | ("eq", A, B, C, raw)"""
    items = []
    for ln in text.splitlines():
        s = ln.strip()
        if not s or s.startswith("#"):
            continue
        toks = s.split(" ")
        if toks[0] == "[function]":
            items.append(("function", toks[1], toks[2]))
        elif toks[0] == "[ioblock]":
            items.append(("ioblock", toks[1], toks[2], [t for t in toks[3:] if t]))
        elif toks[0] == "[external]":
            items.append(("external",) + tuple(toks[1:]))
        elif toks[0] == "[glue]":
            items.append(("glue", toks[1], toks[2], toks[3], toks[4]))
        else:
            dotted = bool(toks) and toks[-1] == "."
            if dotted:
                toks = toks[:-1]
            i = toks.index("*")
            j = toks.index("=")
            items.append(("eq", parse_sig(toks[:i]), parse_sig(toks[i + 1:j]), parse_sig(toks[j + 1:]), s, dotted))
    return items


def ctx_of(name):
    c, sep, _ = name.partition("/")
    return c if sep else None


def eq_context(eq):
    cs = {ctx_of(nm) for side in eq[1:4] for _, nm in side}
    cs.discard(None)
    return cs


def value_of(name, vals):
    if name.endswith("/one") or name == "one":
        return 1
    return vals[name]


def eval_sig(sig, vals, p):
    return sum(c * value_of(nm, vals) for c, nm in sig) % p


def eq_holds(eq, vals, p):
    a, b, c = (eval_sig(s, vals, p) for s in eq[1:4])
    if not eq[1] and not eq[2]:
        return c == 0                     # linear equation: 0 = C
    return (a * b - c) % p == 0


def strip_ctx(s):
    """Normalised (context-free) rendering of an equation, as the per-function files hold it."""
    return " ".join((t.partition("/")[2] if "/" in t else t) for t in s.split(" "))
