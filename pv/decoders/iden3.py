"""Decoders for the iden3 binary formats read by snarkjs, written from the format
specification (r1cs: iden3/r1csfile doc/r1cs_bin_format.md; wtns: snarkjs wtns_utils) - not from
pysnark's writer.  Every structural expectation that fails is returned as a defect string."""
import struct


class Malformed(Exception):
    pass


def _u32(b, o):
    if o + 4 > len(b):
        raise Malformed("truncated u32 at %d" % o)
    return struct.unpack_from("<I", b, o)[0], o + 4


def _u64(b, o):
    if o + 8 > len(b):
        raise Malformed("truncated u64 at %d" % o)
    return struct.unpack_from("<Q", b, o)[0], o + 8


def _fe(b, o, n8):
    if o + n8 > len(b):
        raise Malformed("truncated field element at %d" % o)
    return int.from_bytes(b[o:o + n8], "little"), o + n8


def _sections(b, magic, version):
    defects = []
    if b[:4] != magic:
        raise Malformed("bad magic %r" % b[:4])
    ver, o = _u32(b, 4)
    if ver != version:
        defects.append("version %d != %d" % (ver, version))
    nsec, o = _u32(b, o)
    secs = []
    while o < len(b):
        if len(secs) == nsec:
            defects.append("%d trailing bytes after the declared %d sections" % (len(b) - o, nsec))
            break
        typ, o = _u32(b, o)
        size, o = _u64(b, o)
        if o + size > len(b):
            raise Malformed("section %d declares %d bytes, only %d left" % (typ, size, len(b) - o))
        secs.append((typ, b[o:o + size]))
        o += size
    if len(secs) != nsec:
        defects.append("declared %d sections, found %d" % (nsec, len(secs)))
    return secs, defects


def read_r1cs(b):
    secs, defects = _sections(b, b"r1cs", 1)
    bytype = {}
    for t, c in secs:
        if t in bytype:
            defects.append("duplicate section type %d" % t)
        bytype[t] = c
    for t in (1, 2, 3):
        if t not in bytype:
            raise Malformed("missing section %d" % t)
    h = bytype[1]
    n8, o = _u32(h, 0)
    prime, o = _fe(h, o, n8)
    nwires, o = _u32(h, o)
    npubout, o = _u32(h, o)
    npubin, o = _u32(h, o)
    nprvin, o = _u32(h, o)
    nlabels, o = _u64(h, o)
    ncons, o = _u32(h, o)
    if o != len(h):
        defects.append("header section has %d bytes, fields use %d" % (len(h), o))
    if n8 % 8 or n8 * 8 < prime.bit_length():
        defects.append("field size %d does not fit the prime" % n8)
    c = bytype[2]
    o = 0
    cons = []
    for i in range(ncons):
        tri = []
        for side in range(3):
            nt, o = _u32(c, o)
            terms = []
            for _ in range(nt):
                w, o = _u32(c, o)
                v, o = _fe(c, o, n8)
                if v >= prime:
                    defects.append("constraint %d: coefficient not canonical (>= prime)" % i)
                if w >= nwires:
                    defects.append("constraint %d: wire id %d >= nWires %d" % (i, w, nwires))
                terms.append((w, v))
            tri.append(terms)
        cons.append(tri)
    if o != len(c):
        defects.append("constraint section declares %d bytes, %d constraints use %d" % (len(c), ncons, o))
    m = bytype[3]
    if len(m) != 8 * nwires:
        defects.append("wire2label section has %d bytes for %d wires" % (len(m), nwires))
    return {"n8": n8, "prime": prime, "nwires": nwires, "npubout": npubout, "npubin": npubin, "nprvin": nprvin,
            "nlabels": nlabels, "ncons": ncons, "constraints": cons, "defects": defects}


def read_wtns(b):
    secs, defects = _sections(b, b"wtns", 2)
    bytype = dict(secs)
    if len(bytype) != len(secs):
        defects.append("duplicate sections")
    if 1 not in bytype or 2 not in bytype:
        raise Malformed("missing section")
    h = bytype[1]
    n8, o = _u32(h, 0)
    prime, o = _fe(h, o, n8)
    nw, o = _u32(h, o)
    if o != len(h):
        defects.append("header section has %d bytes, fields use %d" % (len(h), o))
    d = bytype[2]
    if len(d) != nw * n8:
        defects.append("data section has %d bytes for %d witnesses of %d bytes" % (len(d), nw, n8))
    vals = []
    for i in range(min(nw, len(d) // n8)):
        v = int.from_bytes(d[i * n8:(i + 1) * n8], "little")
        if v >= prime:
            defects.append("witness %d not canonical (>= prime)" % i)
        vals.append(v)
    return {"n8": n8, "prime": prime, "nwitness": nw, "values": vals, "defects": defects}


def lc_dict(terms, p):
    d = {}
    for w, v in terms:
        d[w] = (d.get(w, 0) + v) % p
    return {w: v for w, v in d.items() if v}
