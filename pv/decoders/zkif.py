"""Hand decoder for size-prefixed zkinterface messages, written from zkinterface.fbs and the
FlatBuffers binary format description (size prefix -> root uoffset -> table: soffset to vtable,
vtable: [vtable size u16, table size u16, field offsets u16...], vectors: u32 length + elements,
unions: type byte field followed by the value field).  Not derived from the builder shim."""
import struct


class Malformed(Exception):
    pass


def _chk(b, o, n):
    if o < 0 or o + n > len(b):
        raise Malformed("read of %d bytes at %d outside the %d-byte buffer" % (n, o, len(b)))


def u32(b, o):
    _chk(b, o, 4)
    return struct.unpack_from("<I", b, o)[0]


def i32(b, o):
    _chk(b, o, 4)
    return struct.unpack_from("<i", b, o)[0]


def u16(b, o):
    _chk(b, o, 2)
    return struct.unpack_from("<H", b, o)[0]


def u64(b, o):
    _chk(b, o, 8)
    return struct.unpack_from("<Q", b, o)[0]


class Table:
    def __init__(self, b, pos, lo, hi):
        self.b, self.pos, self.lo, self.hi = b, pos, lo, hi
        if not (lo <= pos < hi):
            raise Malformed("table position %d outside its message [%d,%d)" % (pos, lo, hi))
        self.vt = pos - i32(b, pos)
        if not (lo <= self.vt < hi):
            raise Malformed("vtable position outside its message")
        self.vtlen = u16(b, self.vt)
        if self.vtlen < 4 or self.vtlen % 2 or self.vt + self.vtlen > hi:
            raise Malformed("bad vtable length %d" % self.vtlen)

    def off(self, slot):
        e = 4 + 2 * slot
        if e >= self.vtlen:
            return 0
        return u16(self.b, self.vt + e)

    def scalar(self, slot, fn, default=0):
        o = self.off(slot)
        return fn(self.b, self.pos + o) if o else default

    def indirect(self, slot):
        o = self.off(slot)
        if not o:
            return None
        p = self.pos + o
        t = p + u32(self.b, p)
        if not (self.lo <= t < self.hi):
            raise Malformed("offset leaves its message")
        return t

    def table(self, slot):
        p = self.indirect(slot)
        return Table(self.b, p, self.lo, self.hi) if p is not None else None

    def vector(self, slot):
        p = self.indirect(slot)
        if p is None:
            return None
        n = u32(self.b, p)
        return n, p + 4


def variables(t, defects, what):
    """-> list of (id, value), element width"""
    if t is None:
        return [], None
    ids = t.vector(0)
    vals = t.vector(1)
    idl = []
    if ids:
        _chk(t.b, ids[1], 8 * ids[0])
        idl = [u64(t.b, ids[1] + 8 * i) for i in range(ids[0])]
    raw = b""
    if vals:
        _chk(t.b, vals[1], vals[0])
        raw = bytes(t.b[vals[1]:vals[1] + vals[0]])
    if idl:
        if len(raw) % len(idl):
            defects.append("%s: %d value bytes for %d ids" % (what, len(raw), len(idl)))
            return [(i, None) for i in idl], None
        w = len(raw) // len(idl)
        return [(idl[i], int.from_bytes(raw[i * w:(i + 1) * w], "little")) for i in range(len(idl))], w
    if raw:
        defects.append("%s: value bytes without ids" % what)
    return [], None


def messages(data):
    """-> (list of messages, defects).  message = dict(type=..., ...)"""
    out, defects = [], []
    o = 0
    while o < len(data):
        if o + 4 > len(data):
            defects.append("%d stray bytes at the end" % (len(data) - o))
            break
        sz = u32(data, o)
        lo, hi = o + 4, o + 4 + sz
        if hi > len(data):
            raise Malformed("message declares %d bytes, only %d left" % (sz, len(data) - lo))
        root = Table(data, lo + u32(data, lo), lo, hi)
        mtype = root.scalar(0, lambda b, p: b[p])
        msg = root.table(1)
        if msg is None:
            defects.append("root without message")
        elif mtype == 1:
            fm = msg.vector(2)
            inst, w = variables(msg.table(0), defects, "header.instance_variables")
            out.append({"type": "header", "instance": inst, "width": w, "free_variable_id": msg.scalar(1, u64),
                        "field_maximum": int.from_bytes(bytes(data[fm[1]:fm[1] + fm[0]]), "little") if fm else None,
                        "field_maximum_len": fm[0] if fm else None})
        elif mtype == 2:
            v = msg.vector(0)
            cons = []
            for i in range(v[0] if v else 0):
                p = v[1] + 4 * i
                c = Table(data, p + u32(data, p), lo, hi)
                tri = []
                for k in range(3):
                    lc, w = variables(c.table(k), defects, "constraint %d side %d" % (i, k))
                    tri.append((lc, w))
                cons.append(tri)
            out.append({"type": "constraints", "constraints": cons})
        elif mtype == 3:
            asg, w = variables(msg.table(0), defects, "witness.assigned_variables")
            out.append({"type": "witness", "assigned": asg, "width": w})
        else:
            out.append({"type": "other", "code": mtype})
        o = hi
    return out, defects
