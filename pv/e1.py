"""Parallel driver for E1 sweeps: shards (program, bitlength, field) over worker processes,
applies a per-execution oracle, aggregates coverage and de-duplicated violations."""
import importlib
import random

from . import common
from . import harness as H
from . import opseq as E
from . import ops as O
from . import recorder as REC

_ORACLE = None
_FINAL = None
_WANT_STEPS = False


_REAL = None

REAL_BACKENDS = {"pysnark.snarkjsbackend": REC.BN128, "pysnark.zkinterface.backend": REC.BN128,
                 "pysnark.zkinterface.backendbellman": REC.BLS12_381, "pysnark.zkinterface.backendbulletproofs": REC.CURVE25519}


def bind_real_worker(real):
    """Worker / replay process: pre-import a REAL list-based backend module (FlatBuffers builder shim on
    the path for the zkinterface family) so that pysnark.runtime selects it; the explorers then inspect
    the module's own variable and constraint lists."""
    import sys
    if "pysnark.runtime" in sys.modules:
        raise RuntimeError("real-backend worker: pysnark.runtime is already imported in this process")
    if "zkinterface" in real:
        try:
            import flatbuffers  # noqa: F401
        except ImportError:
            import os
            sys.path.insert(0, os.path.join(common.VERIF, "pv", "shims", "fb"))
    H.bind_real(real)


def _init(oracle_path, bind_name, real=None):
    global _ORACLE, _FINAL, _WANT_STEPS, _REAL
    _REAL = real
    if real:
        bind_real_worker(real)
    else:
        H.bind(REC.BN128, bind_name)
    mod, fn = oracle_path.rsplit(".", 1)
    m = importlib.import_module(mod)
    _ORACLE = getattr(m, fn)
    _FINAL = getattr(m, fn + "_final", None)
    _WANT_STEPS = bool(getattr(m, "WANT_STEPS", False))


def _state_key(mode, n, o):
    return hash((mode, n, o.status, o.exc, repr(o.value)))


def _task(t):
    prog, n, p, vals, modes, want_trace = t
    name = O.expr_str(prog["expr"], prog["kinds"])
    st = {"executions": 0, "transitions": 0, "ok": 0, "raised": 0}
    states = set()
    outcomes = set()
    viols = {}
    extra = {}
    structured = isinstance(vals, E.Structured)
    growing = (n > 16 or structured) and any(op in ("pow", "lshift", "rshift") for op in O.expr_ops(prog["expr"]))
    for vec in E.input_vectors(prog, vals):
        if growing and len(vec) > 1 and abs(vec[1]) > (40 if structured else 1024):
            # exponents / shift counts of 2^32 and more: the library multiplies that many times (no answer to compare)
            st["skipped_huge_exponent"] = st.get("skipped_huge_exponent", 0) + 1
            continue
        for mode in modes:
            o = E.execute(prog, vec, mode, n, want_trace, p, _WANT_STEPS)
            st["executions"] += 1
            st["transitions"] += o.calls + (1 if o.status == "raise" else 0)
            if o.status == "ok":
                st["ok"] += 1
            else:
                st["raised"] += 1
            states.add(_state_key(mode, n, o))
            outcomes.add((o.status, o.exc, repr(o.value)))
            for sig, what in _ORACLE(prog, vec, mode, n, p, o, extra) or ():
                key = common.sig_hash(sig)
                if key not in viols:
                    if _REAL:
                        sig = dict(sig, backend=_REAL.split("pysnark.")[1])
                        what = "[real backend %s] %s" % (_REAL, what)
                    viols[key] = {"sig": sig, "what": what, "count": 0,
                                  "case": {"prog": prog, "vals": list(vec), "mode": mode, "n": n,
                                           "p": p, "real": _REAL}}
                viols[key]["count"] += 1
    if _FINAL is not None:
        for sig, what, case in _FINAL(prog, n, p, extra) or ():
            key = common.sig_hash(sig)
            if key not in viols:
                viols[key] = {"sig": sig, "what": what, "count": 0, "case": case}
            viols[key]["count"] += 1
        extra.pop("pending", None)
    return {"name": name, "st": st, "states": states, "n_outcomes": len(outcomes),
            "viols": viols, "extra": extra}


def sweep(ctx, progs, configs, oracle_path, modes=E.MODES, want_trace=False,
          bind_name="pysnark.nobackend", post=None, real=None):
    """configs: list of (n, p, values).  real: module name of a real backend to run against instead of
    the recorder (p of every config must be that backend's field)."""
    tasks = []
    for n, p, vals in configs:
        for prog in progs:
            tasks.append((prog, n, p, vals, modes, want_trace))
    rnd = random.Random(ctx.seed)
    rnd.shuffle(tasks)          # the seed only permutes enumeration order
    # big programs first would be better for balance; chunk by 1 and let the pool balance
    if real and (len(tasks) < 2 or common.NCPU <= 1 or __import__("os").environ.get("VERIF_SERIAL")):
        tasks = tasks + tasks[:1] if len(tasks) < 2 else tasks
        results = common.pool_map(_task, tasks, init=_init, initargs=(oracle_path, bind_name, real), procs=2, force_fork=True)
    else:
        results = common.pool_map(_task, tasks, init=_init, initargs=(oracle_path, bind_name, real))
    if real:
        ctx.cov["real_backend_executions"] = ctx.cov.get("real_backend_executions", 0) + sum(r["st"]["executions"] for r in results)
        ctx.cov.setdefault("real_backends", [])
        if real not in ctx.cov["real_backends"]:
            ctx.cov["real_backends"].append(real)
    states = set()
    per_op_outcomes = {}
    extras = []
    for r in results:
        common.merge_counts(ctx.cov, r["st"])
        states |= r["states"]
        per_op_outcomes[r["name"]] = max(per_op_outcomes.get(r["name"], 0), r["n_outcomes"])
        for v in r["viols"].values():
            sig = dict(v["sig"])
            ctx.violations.append({"sig": sig, "case": v["case"],
                                   "what": v["what"] + " (x%d)" % v["count"]})
        extras.append((r["name"], r["extra"]))
    ctx.cov["states"] = ctx.cov.get("states", 0) + len(states)
    ctx.cov["programs"] = ctx.cov.get("programs", 0) + len(progs)
    ctx.cov["configs"] = ctx.cov.get("configs", []) + [
        {"bitlength": n, "field_bits": p.bit_length(), "values": len(vals), "structured": isinstance(vals, E.Structured)} for n, p, vals in configs]
    single = sorted(k for k, v in per_op_outcomes.items() if v <= 1)
    ctx.cov["programs_with_single_outcome"] = ctx.cov.get("programs_with_single_outcome", []) + single
    ctx.cov["distinct_outcomes"] = ctx.cov.get("distinct_outcomes", 0) + sum(per_op_outcomes.values())
    if post:
        post(extras)
    return extras


def dedupe_violations(ctx):
    """Collapse violations that have the same signature (workers report per task)."""
    seen = {}
    for v in ctx.violations:
        k = common.sig_hash(v["sig"])
        if k in seen:
            seen[k]["n"] += 1
        else:
            v["n"] = 1
            seen[k] = v
    ctx.violations = list(seen.values())


def standard_configs(ctx, fields=None, small=(1, 2, 3), big=(4, 8, 16, 33, 64, 65, 128)):
    """(n, p, values) list per tier.  quick: D(2), D(3) complete + lattice(8) on bn128;
    thorough: all three real fields, lattices 4, 8, 16."""
    cfg = []
    if ctx.thorough:
        fl = list(REC.REAL_FIELDS.values())
    else:
        extra = [REC.BLS12_381, REC.CURVE25519][ctx.seed % 2]
        fl = [REC.BN128, extra]
    if fields:
        fl = fields
    for i, p in enumerate(fl):
        for n in small:
            if ctx.thorough or i == 0 or n == 2:
                cfg.append((n, p, E.D(n)))
        for n in big:
            if ctx.thorough or (i == 0 and n == 8):
                cfg.append((n, p, E.lattice(n)))
    return cfg


def wide_values65():
    nib = sorted(E.nibble_patterns(65))
    return sorted({0, 1, -1, 2 ** 64 - 1, 2 ** 64, 2 ** 64 + 1, -(2 ** 64), 2 ** 65 - 1, 2 ** 65 + 1, nib[0], -nib[-1], nib[1]})


def wide_sweep(ctx, oracle_path, modes, include_assert=True):
    """Quick tier: bitlength 65 (beyond the 64-bit word) on its boundary lattice, integer / boolean programs only
    (the thorough tier has 33, 64, 65 and 128 with every program in standard_configs)."""
    if ctx.thorough:
        return
    vals = wide_values65()
    sweep(ctx, E.depth1_programs(include_fxp=False, include_assert=include_assert), [(65, REC.BN128, vals)], oracle_path, modes=modes)


# ------------------------------------------------------------------------------------------------
# depth >= 3: breadth-first search over operation sequences with state merging (pv/bfs.py)

def _bfs_init():
    H.bind(REC.BN128)


def _bfs_task(t):
    from . import bfs
    init, depth, n, p, small = t
    st, viols = bfs.explore(tuple(init), depth, n, p, small)
    return {"st": st, "viols": viols}


def bfs_sweep(ctx, klasses, thorough):
    """Runs the sequence search and keeps the violations whose class is in `klasses`."""
    import itertools
    if thorough:
        inits = [(a, b) for a in (-3, -1, 0, 2, 3) for b in (-2, 0, 1, 3)]
        cfgs = [(3, REC.BN128, 3, False), (2, REC.BLS12_381, 4, True)]
    else:
        inits = [(a, b) for a in (-3, 0, 2) for b in (-1, 1, 3)]
        cfgs = [(3, REC.BN128, 3, True)]
    tasks = [(init, depth, n, p, small) for n, p, depth, small in cfgs for init in inits]
    results = common.pool_map(_bfs_task, tasks, init=_bfs_init)
    agg = {}
    for r in results:
        common.merge_counts(agg, r["st"])
        for v in r["viols"].values():
            if v["sig"]["klass"] in klasses:
                ctx.violations.append({"sig": v["sig"], "case": dict(v["case"], bfs=True), "what": v["what"] + " (x%d)" % v["count"]})
    ctx.cov["sequence_search"] = {"initial_register_files": len(inits), "bounds": [{"bitlength": n, "depth": d, "small_alphabet": s} for n, _, d, s in cfgs], **agg}
    ctx.cov["states"] = ctx.cov.get("states", 0) + agg.get("states", 0)
    ctx.cov["transitions"] = ctx.cov.get("transitions", 0) + agg.get("transitions", 0)
    ctx.cov["executions"] = ctx.cov.get("executions", 0) + agg.get("histories", 0)
    return agg
