"""Runner pieces shared by all checks: context, violation handling, evidence, worker pool."""
import hashlib
import json
import multiprocessing
import os
import sys
import time

VERIF = os.path.dirname(os.path.dirname(os.path.abspath(__file__)))
TREE = os.environ.get("PYSNARK_TREE", "/repo")
PY = "/venv/bin/python"
NCPU = int(os.environ.get("VERIF_JOBS", str(os.cpu_count() or 4)))


class Ctx:
    def __init__(self, pid, tier, seed):
        self.pid = pid
        self.tier = tier
        self.seed = seed
        self.thorough = tier == "thorough"
        self.t0 = time.time()
        self.violations = []     # list of Violation dicts
        self.cov = {}            # coverage keys
        self.assumptions = []
        self.samples = []
        self.harness_errors = []

    def violation(self, sig, case, what):
        """sig: dict of small hashable fields characterising the failure;
        case: JSON-able data that `replay` can re-execute; what: human text."""
        self.violations.append({"sig": sig, "case": case, "what": what})

    def add(self, key, n=1):
        self.cov[key] = self.cov.get(key, 0) + n

    def sample(self, s, cap=12):
        if len(self.samples) < cap:
            self.samples.append(s)


def sig_hash(sig):
    return hashlib.sha1(json.dumps(sig, sort_keys=True, default=str).encode()).hexdigest()[:12]


# ------------------------------------------------------------------ known findings

def load_findings():
    path = os.path.join(VERIF, "known_findings.json")
    if not os.path.exists(path):
        return {"findings": [], "fixed": []}
    with open(path) as f:
        return json.load(f)


def _match_value(pat, val):
    if isinstance(pat, dict):
        if "in" in pat:
            return val in pat["in"]
        if "prefix" in pat:
            return isinstance(val, str) and val.startswith(pat["prefix"])
        if "not" in pat:
            return not _match_value(pat["not"], val)
        return False
    return pat == val


def match_finding(finding, pid, sig):
    if finding["property"] != pid:
        return False
    for k, pat in finding["match"].items():
        if k not in sig:
            return False
        if not _match_value(pat, sig[k]):
            return False
    return True


# ------------------------------------------------------------------ evidence

def write_evidence(ctx, level="model_checking"):
    cov = dict(ctx.cov)
    cov.setdefault("samples", ctx.samples if ctx.samples else ["(no sample recorded)"])
    states = int(cov.get("states", 0))
    transitions = int(cov.get("transitions", 0))
    cov["states"] = max(states, 1) if states else states
    cov["transitions"] = transitions
    cov.setdefault("traces_validated_against_impl", 0)
    # exploration-style keys as well (measured, see each check's rule)
    cov.setdefault("evaluations", int(cov.get("executions", transitions)))
    cov.setdefault("distinct_nontrivial", int(cov.get("distinct_outcomes", 0)))
    ev = {
        "property_id": ctx.pid,
        "tier": ctx.tier,
        "seed": ctx.seed,
        "level": level,
        "coverage": cov,
        "assumptions": ctx.assumptions,
        "wall_s": round(time.time() - ctx.t0, 2),
        "violations": len([v for v in ctx.violations if not v.get("known")]),
    }
    evdir = os.environ.get("VERIF_EVIDENCE_DIR") or os.path.join(VERIF, "evidence")
    os.makedirs(evdir, exist_ok=True)
    path = os.path.join(evdir, ctx.pid + ".json")
    tmp = path + ".tmp%d" % os.getpid()
    with open(tmp, "w") as f:
        json.dump(ev, f, indent=1, default=str)
        f.write("\n")
    os.replace(tmp, path)
    return path


def write_replay(ctx, v):
    d = os.path.join(os.environ.get("VERIF_REPLAY_DIR") or os.path.join(VERIF, "replays"), ctx.pid)
    os.makedirs(d, exist_ok=True)
    path = os.path.join(d, sig_hash(v["sig"]) + ".json")
    with open(path, "w") as f:
        json.dump({"property": ctx.pid, "sig": v["sig"], "what": v["what"], "case": v["case"]},
                  f, indent=1, default=str)
        f.write("\n")
    return path


def finish(ctx, level="model_checking"):
    """Match violations against the known-findings file, print lines, write evidence, return
    the exit status."""
    kf = load_findings()
    unknown = {}
    known = {}
    for v in ctx.violations:
        hit = None
        for f in kf.get("findings", []):
            if match_finding(f, ctx.pid, v["sig"]):
                hit = f
                break
        if hit is not None:
            v["known"] = hit["id"]
            known.setdefault(hit["id"], (hit, []))[1].append(v)
        else:
            unknown.setdefault(sig_hash(v["sig"]), []).append(v)
    for fid, (f, vs) in sorted(known.items()):
        path = write_replay(ctx, vs[0])
        print("KNOWN-FINDING: property=%s %s [%s; %d matching counterexamples, e.g. %s]" % (
            ctx.pid, f["what"], fid, len(vs), os.path.relpath(path, VERIF)))
    ctx.cov["known_finding_counterexamples"] = sum(len(vs) for _, vs in known.values())
    ctx.cov["known_findings_matched"] = sorted(known)
    status = 0
    confirmed = 0
    for n, (h, vs) in enumerate(sorted(unknown.items())):
        path = write_replay(ctx, vs[0])
        print("VIOLATION property=%s replay=%s" % (ctx.pid, path))
        if n < 3 and not os.environ.get("VERIF_NO_REPLAY_CONFIRM"):
            # re-execute the case once from its replay file in a fresh process (determinism check)
            ok = confirm_replay(ctx.pid, path)
            confirmed += 1 if ok else 0
            print("  replay in a fresh process: %s" % ("reproduced" if ok else "NOT reproduced (see the replay file; the violation line stands)"))
        print("  what: %s  (%d counterexamples with this signature)" % (vs[0]["what"], len(vs)))
        print("  sig: %s" % json.dumps(vs[0]["sig"], sort_keys=True, default=str))
        status = 1
    if ctx.harness_errors:
        for e in ctx.harness_errors[:10]:
            print("HARNESS-ERROR: %s" % e)
        status = max(status, 2)
    path = write_evidence(ctx, level)
    c = ctx.cov
    print("%s %s: states=%s transitions=%s executions=%s distinct_outcomes=%s validated=%s wall=%.1fs -> %s" % (
        ctx.pid, ctx.tier, c.get("states"), c.get("transitions"), c.get("executions"),
        c.get("distinct_outcomes"), c.get("traces_validated_against_impl"),
        time.time() - ctx.t0, path))
    return status


def confirm_replay(pid, path):
    import subprocess
    try:
        r = subprocess.run([os.path.join(VERIF, "check"), pid, "--replay", path], cwd=VERIF, capture_output=True,
                           text=True, timeout=600, start_new_session=True,
                           env=dict(os.environ, VERIF_NO_REPLAY_CONFIRM="1"))
        return r.returncode == 1
    except Exception:  # noqa: BLE001
        return False


# ------------------------------------------------------------------ worker pool

def pool_map(fn, tasks, init=None, initargs=(), chunksize=1, procs=None, force_fork=False):
    """Ordered map over tasks in forked workers (fork once per worker)."""
    procs = procs or NCPU
    tasks = list(tasks)
    if not tasks:
        return []
    if not force_fork and (procs <= 1 or len(tasks) == 1 or os.environ.get("VERIF_SERIAL")):
        if init:
            init(*initargs)
        return [fn(t) for t in tasks]
    ctxm = multiprocessing.get_context("fork")
    with ctxm.Pool(min(procs, len(tasks)), initializer=init, initargs=initargs) as pool:
        return pool.map(fn, tasks, chunksize)


def merge_counts(dst, src):
    for k, v in src.items():
        if isinstance(v, (int, float)):
            dst[k] = dst.get(k, 0) + v
        elif isinstance(v, set):
            dst.setdefault(k, set()).update(v)
        elif isinstance(v, list):
            dst.setdefault(k, []).extend(v)
        elif isinstance(v, dict):
            merge_counts(dst.setdefault(k, {}), v)
    return dst
