"""E5: serializer explorer — all backend-API call sequences up to a bound over an alphabet of value
classes and linear-combination shapes, driven directly on a backend module's own API."""
import itertools

from .recorder import BN128


def value_classes(p):
    return [0, 1, 2, -1, -2, p - 1, p, p + 1, 2 ** 256 - 1, 2 ** 256 + 5, -(p + 3)]


# LC menu: name -> (builder over backend objects, expected {ref: coeff}); refs: 0 one, 1.. declared vars
def lc_menu(k, p):
    m = [("zero", lambda api, v: api.zero(), {}),
         ("one", lambda api, v: api.one(), {0: 1})]
    if k >= 1:
        m += [("v1", lambda api, v: v[0], {1: 1}),
              ("0*v1", lambda api, v: v[0] * 0, {1: 0}),
              ("v1-v1", lambda api, v: v[0] - v[0], {1: 0}),
              ("-v1", lambda api, v: -v[0], {1: -1}),
              ("(p-1)*v1+one*(2^256+5)", lambda api, v: v[0] * (p - 1) + api.one() * (2 ** 256 + 5), {1: p - 1, 0: 2 ** 256 + 5}),
              ("-(p+3)*v1", lambda api, v: v[0] * (-(p + 3)), {1: -(p + 3)})]
    if k >= 2:
        m += [("v2", lambda api, v: v[1], {2: 1}),
              ("v1+v2", lambda api, v: v[0] + v[1], {1: 1, 2: 1}),
              ("2*v1-v2", lambda api, v: v[0] * 2 - v[1], {1: 2, 2: -1}),
              ("(v1+v2)-(v1+one)", lambda api, v: (v[0] + v[1]) - (v[0] + api.one()), {1: 0, 2: 1, 0: -1})]
    if k >= 3:
        m += [("v3+v1*p", lambda api, v: v[2] + v[0] * p, {3: 1, 1: p})]
    return m


def traces(level, p):
    """Trace specs: {"vars": [(kind, value)...], "cons": [(iA, iB, iC)...]} (indices into lc_menu(k))."""
    V = value_classes(p)
    out = []
    for k in (0, 1, 2, 3):
        if k == 0:
            varlists = [[]]
        elif k == 1:
            varlists = [[(kd, v)] for kd in ("pub", "priv") for v in V]
        elif k == 2:
            vs = [0, 1, -1, p, 2 ** 256 + 5] if level == 0 else V
            varlists = [[(k1, a), (k2, b)] for k1 in ("pub", "priv") for k2 in ("pub", "priv") for a in vs for b in vs]
        else:
            vs = [0, -1, 2 ** 256 + 5] if level == 0 else [0, 1, -1, p + 1, 2 ** 256 + 5]
            kinds = list(itertools.product(("pub", "priv"), repeat=3))
            varlists = [[(kk[0], a), (kk[1], b), (kk[2], c)] for kk in kinds for a in vs for b in vs for c in vs]
        nm = len(lc_menu(k, p))
        one_con = list(itertools.product(range(nm), repeat=3))
        small = list(range(min(nm, 4 if level == 0 else 6)))
        # the constraint lists do not depend on the values: full product only for compact var lists
        for vl in varlists:
            out.append({"vars": vl, "cons": []})
        compact = varlists if k <= 1 else varlists[:: max(1, len(varlists) // (24 if level == 0 else 200))]
        for vl in compact:
            for c in one_con:
                out.append({"vars": vl, "cons": [c]})
        pairs = list(itertools.product(itertools.product(small, repeat=3), repeat=2))
        for vl in compact[:: max(1, len(compact) // (6 if level == 0 else 24))]:
            for c1, c2 in pairs[:: (7 if level == 0 else 1)]:
                out.append({"vars": vl, "cons": [c1, c2]})
    return out


def big_trace(nvars, ncons, p):
    """One LARGE generated trace (sizes beyond every 8-bit / 12-bit / 13-bit / 16-bit count or 64 KiB buffer):
    every tenth variable public, values not a function of the position alone, every constraint
    v[a] * (k*v[b] + one) = 3*v[c] - v[a] with a, b, c spread over the WHOLE index range."""
    vs = []
    for i in range(nvars):
        val = i * i + 3
        if i % 97 == 0:
            val = -(i + 1)
        if i % 101 == 0:
            val = p + i
        vs.append(("pub" if i % 10 == 0 else "priv", val))
    cons = []
    for j in range(ncons):
        cons.append(("g", (j * 7919) % nvars, nvars - 1 - (j % nvars), (j * 104729 + 5) % nvars, j + 2))
    return {"vars": vs, "cons": cons, "big": True}


def compact(spec):
    """Replayable form of a spec (large generated traces are stored by their size)."""
    return {"big": [len(spec["vars"]), len(spec["cons"])]} if spec.get("big") else spec


def expand(d, p):
    if isinstance(d.get("big"), list):
        return big_trace(d["big"][0], d["big"][1], p)
    return {"vars": [tuple(v) for v in d["vars"]], "cons": [tuple(c) for c in d["cons"]]}


def build(api, spec, p):
    """Perform the calls on a backend API; returns nothing (the backend keeps the trace)."""
    vs = []
    for kind, val in spec["vars"]:
        vs.append(api.pubval(val) if kind == "pub" else api.privval(val))
    menu = lc_menu(min(len(vs), 3), p)
    for tri in spec["cons"]:
        if tri[0] == "g":
            _, a, b, c, k = tri
            api.add_constraint(vs[a], vs[b] * k + api.one(), vs[c] * 3 - vs[a])
            continue
        a, b, c = (menu[i][1](api, vs) for i in tri)
        api.add_constraint(a, b, c)


def expected(spec, p):
    """Independent expectation: public values, private values (in creation order) and constraints
    as dicts {name: coeff mod p} with names 'one', ('pub', i), ('priv', j) (1-based ranks)."""
    pub, priv, names = [], [], {0: "one"}
    for i, (kind, val) in enumerate(spec["vars"], 1):
        if kind == "pub":
            pub.append(val)
            names[i] = ("pub", len(pub))
        else:
            priv.append(val)
            names[i] = ("priv", len(priv))
    menu = lc_menu(min(len(spec["vars"]), 3), p)
    cons = []
    for tri in spec["cons"]:
        if tri[0] == "g":
            _, a, b, c, k = tri
            cd = {}
            for r, co in ((c + 1, 3), (a + 1, -1)):
                cd[names[r]] = (cd.get(names[r], 0) + co) % p
            cons.append(({names[a + 1]: 1}, {names[b + 1]: k % p, "one": 1}, {kk: vv for kk, vv in cd.items() if vv}))
            continue
        cons.append(tuple({names[r]: c % p for r, c in menu[i][2].items() if c % p} for i in tri))
    return pub, priv, cons


def spec_str(spec, p):
    if spec.get("big"):
        return "generated large trace: %d variables (every tenth public), %d constraints v[a]*(k*v[b]+one) = 3*v[c]-v[a]" % (len(spec["vars"]), len(spec["cons"]))
    menu = lc_menu(len(spec["vars"]), p)

    def v(x):
        for nm, val in (("p", p), ("2^256", 2 ** 256)):
            d = x - val
            if abs(d) <= 8:
                return nm + ("%+d" % d if d else "")
            if abs(-x - val) <= 8:
                return "-(" + nm + ("%+d" % (-x - val) if -x - val else "") + ")"
        return str(x)
    return "vars=[%s] cons=[%s]" % (", ".join("%s(%s)" % (k, v(x)) for k, x in spec["vars"]),
                                    "; ".join(" * ".join(menu[i][0] for i in tri[:2]) + " = " + menu[tri[2]][0] for tri in spec["cons"]))


def satisfied(pub, priv, cons, p):
    val = {"one": 1}
    for i, x in enumerate(pub, 1):
        val[("pub", i)] = x
    for i, x in enumerate(priv, 1):
        val[("priv", i)] = x

    def ev(d):
        return sum(c * val[k] for k, c in d.items()) % p
    return all((ev(a) * ev(b) - ev(c)) % p == 0 for a, b, c in cons)
