"""Minimal stand-in exposing the names pysnark.libsnark.backend uses at import and during tracing."""
_P = 21888242871839275222246405745257275088548364400416034343698204186575808495617
IS_PV_STUB = True


class PbVariable:
    def __init__(self):
        self.ix = None

    def allocate(self, pb):
        pb.vals.append(0)
        self.ix = len(pb.vals)


class ProtoboardPub:
    def __init__(self):
        self.vals, self.public, self.cons = [], [], []

    def setval(self, v, val):
        self.vals[v.ix - 1] = val

    def setpublic(self, v):
        self.public.append(v.ix)

    def add_r1cs_constraint(self, c):
        self.cons.append(c)

    def num_constraints(self):
        return len(self.cons)


class LinearCombination:
    def __init__(self, x=None):
        if x is None:
            self.lc = {}
        elif isinstance(x, int):
            self.lc = {0: x}
        else:
            self.lc = {x.ix: 1}

    def _new(self, d):
        r = LinearCombination()
        r.lc = d
        return r

    def __add__(self, o):
        d = dict(self.lc)
        for k, v in o.lc.items():
            d[k] = d.get(k, 0) + v
        return self._new(d)

    def __sub__(self, o):
        return self + (-o)

    def __mul__(self, k):
        return self._new({a: b * k for a, b in self.lc.items()})

    def __neg__(self):
        return self * -1


class R1csConstraint:
    def __init__(self, a, b, c):
        self.a, self.b, self.c = a, b, c


def fieldinverse(v):
    return pow(v, -1, _P)


def get_modulus():
    return _P
