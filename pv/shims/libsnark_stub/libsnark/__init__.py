"""Stand-in for the (absent) libsnark Python extension, used ONLY so that C19 can enumerate
configurations in which the libsnark backends are loadable.  Nothing is claimed about libsnark."""
