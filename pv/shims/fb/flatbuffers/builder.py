import struct
class Builder:
    def __init__(self, initialSize=1024):
        self.Bytes=bytearray(initialSize); self.head=initialSize; self.minalign=1
        self.current_vtable=None; self.objectEnd=None; self.vtables=[]; self.nested=False; self.finished=False
    def Offset(self): return len(self.Bytes)-self.head
    def Head(self): return self.head
    def _grow(self):
        n=len(self.Bytes); new=bytearray(max(n,1)*2); new[len(new)-n:]=self.Bytes; self.head+=len(new)-n; self.Bytes=new
    def Pad(self,n):
        for _ in range(n): self._place(b'\x00')
    def _place(self,bs):
        self.head-=len(bs); self.Bytes[self.head:self.head+len(bs)]=bs
    def Prep(self,size,additional):
        if size>self.minalign: self.minalign=size
        align=(~(len(self.Bytes)-self.head+additional)+1)&(size-1)
        while self.head<align+size+additional: self._grow()
        self.Pad(align)
    def _prepend(self,fmt,size,x):
        self.Prep(size,0); self._place(struct.pack(fmt,x))
    def PrependByte(self,x): self._prepend('<B',1,x)
    PrependUint8=PrependByte
    def PrependBool(self,x): self._prepend('<B',1,1 if x else 0)
    def PrependUint64(self,x): self._prepend('<Q',8,x)
    def PrependInt64(self,x): self._prepend('<q',8,x)
    def PrependInt32(self,x): self._prepend('<i',4,x)
    def PrependVOffsetT(self,x): self._prepend('<H',2,x)
    def PrependUOffsetTRelative(self,off):
        self.Prep(4,0)
        if off>self.Offset(): raise ValueError("offset arithmetic error")
        self._place(struct.pack('<I',self.Offset()-off+4))
    def StartVector(self,elemSize,numElems,alignment):
        assert not self.nested; self.nested=True; self.vectorNumElems=numElems
        self.Prep(4,elemSize*numElems); self.Prep(alignment,elemSize*numElems); return self.Offset()
    def EndVector(self,*a):
        assert self.nested; self.nested=False
        self.Prep(4,0); self._place(struct.pack('<I',self.vectorNumElems)); return self.Offset()
    def StartObject(self,numfields):
        assert not self.nested; self.current_vtable=[0]*numfields; self.objectEnd=self.Offset(); self.nested=True
    def Slot(self,n): self.current_vtable[n]=self.Offset()
    def PrependUOffsetTRelativeSlot(self,o,x,d):
        if x!=d: self.PrependUOffsetTRelative(x); self.Slot(o)
    def PrependUint64Slot(self,o,x,d):
        if x!=d: self.PrependUint64(x); self.Slot(o)
    def PrependInt64Slot(self,o,x,d):
        if x!=d: self.PrependInt64(x); self.Slot(o)
    def PrependUint8Slot(self,o,x,d):
        if x!=d: self.PrependUint8(x); self.Slot(o)
    def PrependBoolSlot(self,o,x,d):
        if x!=d: self.PrependBool(x); self.Slot(o)
    def EndObject(self):
        assert self.nested; self.nested=False
        self.Prep(4,0); self._place(b'\0\0\0\0')          # placeholder soffset
        objectOffset=self.Offset()
        vt=list(self.current_vtable)
        while vt and vt[-1]==0: vt.pop()
        entries=[(objectOffset-o) if o else 0 for o in vt]
        objsize=objectOffset-self.objectEnd
        img=struct.pack('<HH',(len(entries)+2)*2,objsize)+b''.join(struct.pack('<H',e) for e in entries)
        existing=None
        for vo in reversed(self.vtables):
            pos=len(self.Bytes)-vo
            ln=struct.unpack_from('<H',self.Bytes,pos)[0]
            if bytes(self.Bytes[pos:pos+ln])==img: existing=vo; break
        objpos=len(self.Bytes)-objectOffset
        if existing is None:
            for e in reversed(entries): self.PrependVOffsetT(e)
            self.PrependVOffsetT(objsize); self.PrependVOffsetT((len(entries)+2)*2)
            # position recomputed AFTER the prepends: they may have grown (re-based) the buffer
            struct.pack_into('<i',self.Bytes,len(self.Bytes)-objectOffset,self.Offset()-objectOffset)
            self.vtables.append(self.Offset())
        else:
            struct.pack_into('<i',self.Bytes,objpos,existing-objectOffset)
        self.current_vtable=None
        return objectOffset
    def _finish(self,root,sizePrefix):
        prep=4+(4 if sizePrefix else 0)
        self.Prep(self.minalign,prep)
        self.PrependUOffsetTRelative(root)
        if sizePrefix: self.PrependInt32(len(self.Bytes)-self.head)
        self.finished=True; return self.head
    def Finish(self,root,file_identifier=None): return self._finish(root,False)
    def FinishSizePrefixed(self,root,file_identifier=None): return self._finish(root,True)
    def Output(self):
        assert self.finished; return self.Bytes[self.head:]
