from . import compat, number_types, builder
from .builder import Builder
