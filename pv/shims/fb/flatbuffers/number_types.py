class _F:
    def __init__(s,bw): s.bytewidth=bw
    @staticmethod
    def py_type(x): return int(x)
UOffsetTFlags=_F(4); SOffsetTFlags=_F(4); VOffsetTFlags=_F(2)
Uint8Flags=_F(1); Uint64Flags=_F(8); Int64Flags=_F(8); BoolFlags=_F(1)
