"""Operation alphabet of the operation-sequence explorer (E1) and its plain-Python reference.

Expressions are nested tuples:  ("in", i)  |  ("op", name, e1, ..., ek)
A program is {"expr": e, "kinds": [k0, k1, ...]}; inputs are a tuple of ints, one per kind.
Kinds: S secret integer, K plain int literal, B secret boolean, P public integer, C ConstVal.
"""
import operator

from . import harness as H


class RefRaise(Exception):
    """The plain-Python expression has no value here: the library must raise."""


class RefAny(Exception):
    """Outside what the statement fixes (e.g. bitwise operation on a negative operand)."""


class RB(int):
    """Reference value of boolean type (comparisons, boolean secrets)."""
    def __repr__(self):
        return "RB(%d)" % int(self)


def _isb(x):
    return isinstance(x, RB)


def _i(x):
    return int(x)


# ----------------------------------------------------------------------------------------------
# reference semantics on plain integers

def r_truediv(a, b):
    if _isb(a) or _isb(b):
        raise RefAny        # boolean-typed operands: operation not offered (TypeError)
    if b == 0 or a % b:
        raise RefRaise
    return a // b


def r_floordiv(a, b):
    if _isb(a) or _isb(b):
        raise RefAny
    if b == 0:
        raise RefRaise
    return a // b


def r_mod(a, b):
    if _isb(a) or _isb(b):
        raise RefAny
    if b == 0:
        raise RefRaise
    return a % b


def r_divmod(a, b):
    if _isb(a) or _isb(b):
        raise RefAny
    if b == 0:
        raise RefRaise
    return divmod(a, b)


def r_pow(a, b):
    if _isb(b):
        raise RefAny
    if b < 0:
        raise RefRaise
    return _i(a) ** b


def r_lshift(a, b):
    if _isb(a) or _isb(b):
        raise RefAny
    if b < 0:
        raise RefRaise
    return a << b


def r_rshift(a, b):
    if _isb(a) or _isb(b):
        raise RefAny
    if b < 0:
        raise RefRaise
    return a >> b


def _bitop(f):
    def g(a, b):
        if _isb(a) or _isb(b):
            # logical operation: the other operand must be boolean-valued
            if _i(a) not in (0, 1) or _i(b) not in (0, 1):
                raise RefAny    # logical operation on a non-boolean value: must be refused
            return RB(f(_i(a), _i(b)))
        if a < 0 or b < 0:
            raise RefAny
        return f(a, b)
    return g


def _cmp(f):
    def g(a, b):
        return RB(1 if f(_i(a), _i(b)) else 0)
    return g


def r_invert(a):
    if _isb(a):
        return RB(1 - _i(a))
    raise RefAny        # integer ~ is the n-bit complement by design, not Python's ~


def r_bits_roundtrip(a):
    if a < 0:
        raise RefRaise
    return _i(a)


def r_ite(c, a, b):
    if _i(c) not in (0, 1):
        raise RefRaise
    return a if _i(c) else b


def _assert(f):
    def g(*a):
        if not f(*[_i(x) for x in a]):
            raise RefRaise
        return None
    return g


REF = {
    "add": lambda a, b: _i(a) + _i(b),
    "sub": lambda a, b: _i(a) - _i(b),
    "mul": lambda a, b: _i(a) * _i(b),
    "truediv": r_truediv, "floordiv": r_floordiv, "mod": r_mod, "divmod": r_divmod,
    "pow": r_pow, "lshift": r_lshift, "rshift": r_rshift,
    "and": _bitop(operator.and_), "or": _bitop(operator.or_), "xor": _bitop(operator.xor),
    "lt": _cmp(operator.lt), "le": _cmp(operator.le), "eq": _cmp(operator.eq),
    "ne": _cmp(operator.ne), "gt": _cmp(operator.gt), "ge": _cmp(operator.ge),
    "neg": lambda a: -_i(a), "pos": lambda a: a, "abs": lambda a: abs(_i(a)),
    "invert": r_invert,
    "check_zero": lambda a: RB(1 if _i(a) == 0 else 0),
    "check_nonzero": lambda a: RB(1 if _i(a) != 0 else 0),
    "check_positive": lambda a: RB(1 if _i(a) >= 0 else 0),
    "bits_roundtrip": r_bits_roundtrip,
    "from_bits3": lambda a, b, c: _i(a) + 2 * _i(b) + 4 * _i(c),
    "if_then_else": r_ite, "if_else": r_ite,
    "tobool": lambda a: RB(_i(a)) if _i(a) in (0, 1) else (_ for _ in ()).throw(RefRaise()),
    "assert_lt": _assert(operator.lt), "assert_le": _assert(operator.le),
    "assert_eq": _assert(operator.eq), "assert_ne": _assert(operator.ne),
    "assert_gt": _assert(operator.gt), "assert_ge": _assert(operator.ge),
    "assert_zero": _assert(lambda a: a == 0), "assert_nonzero": _assert(lambda a: a != 0),
    "assert_positive": _assert(lambda a: a >= 0),
    "assert_range": _assert(lambda a, lo, hi: lo <= a < hi),
    "assert_positive_w": _assert(lambda a, w: 0 <= a < 2 ** w),
    "to_bits_w": _assert(lambda a, w: 0 <= a < 2 ** w),
    "declare_bool": _assert(lambda a: a in (0, 1)),
    "ensure_bool": _assert(lambda a: a in (0, 1)),
    "privvalbool": _assert(lambda a: a in (0, 1)),
    "pubvalbool": _assert(lambda a: a in (0, 1)),
    "unpack_intmod": _assert(lambda m, *bits: sum(b << i for i, b in enumerate(bits[:(m - 1).bit_length()])) < m),
}

# ----------------------------------------------------------------------------------------------
# implementation: the same operation through the public API


def _ite(c, a, b):
    return H.branching.if_then_else(c, a, b)


def _bits_roundtrip(a):
    return H.rt.LinComb.from_bits(a.to_bits())


def _method(name):
    def g(a, *rest):
        return getattr(a, name)(*rest)
    return g


IMPL = {
    "add": operator.add, "sub": operator.sub, "mul": operator.mul,
    "truediv": operator.truediv, "floordiv": operator.floordiv, "mod": operator.mod,
    "divmod": divmod, "pow": operator.pow, "lshift": operator.lshift, "rshift": operator.rshift,
    "and": operator.and_, "or": operator.or_, "xor": operator.xor,
    "lt": operator.lt, "le": operator.le, "eq": operator.eq, "ne": operator.ne,
    "gt": operator.gt, "ge": operator.ge,
    "neg": operator.neg, "pos": operator.pos, "abs": abs, "invert": operator.invert,
    "check_zero": _method("check_zero"), "check_nonzero": _method("check_nonzero"),
    "check_positive": _method("check_positive"),
    "bits_roundtrip": _bits_roundtrip,
    "from_bits3": lambda a, b, c: H.rt.LinComb.from_bits([a, b, c]),
    "if_then_else": _ite, "if_else": lambda c, a, b: c.if_else(a, b),
    "tobool": lambda a: H.boolean.LinCombBool(a),
    "assert_lt": _method("assert_lt"), "assert_le": _method("assert_le"),
    "assert_eq": _method("assert_eq"), "assert_ne": _method("assert_ne"),
    "assert_gt": _method("assert_gt"), "assert_ge": _method("assert_ge"),
    "assert_zero": _method("assert_zero"), "assert_nonzero": _method("assert_nonzero"),
    "assert_positive": _method("assert_positive"), "assert_range": _method("assert_range"),
    "assert_positive_w": lambda a, w: a.assert_positive(w),
    "to_bits_w": lambda a, w: a.to_bits(w),
    "declare_bool": lambda a: H.boolean.LinCombBool(a),
    "ensure_bool": lambda a: H.boolean.LinCombBool._ensurebool(a),
    "privvalbool": lambda v: H.boolean.PrivValBool(v),
    "pubvalbool": lambda v: H.boolean.PubValBool(v),
    "unpack_intmod": lambda m, *bits: _unpack_intmod(m, bits),
}


def _array_get(a0, a1, a2, i):
    from pysnark.array import Array
    return Array([a0, a1, a2])[i]


def _array_set(a0, a1, a2, i, v):
    from pysnark.array import Array
    arr = Array([a0, a1, a2])
    arr[i] = v
    return list(arr.arr)


IMPL_EXTRA = {"array_get": _array_get, "array_set": _array_set}


def _unpack_intmod(m, bits):
    from pysnark.pack import PackIntMod
    return PackIntMod(m).unpack(list(bits), 0)


def _array_assert_eq(a0, a1, b0, b1):
    from pysnark.array import Array
    return Array([a0, a1]).assert_eq(Array([b0, b1]))


def _arr(*xs):
    from pysnark.array import Array
    return Array(list(xs))


def _pack_intmod(m, v):
    from pysnark.pack import PackIntMod
    return PackIntMod(m).pack(v)


IMPL_EXTRA["pack_intmod"] = _pack_intmod
IMPL_EXTRA["array_assert_eq"] = _array_assert_eq
IMPL_EXTRA["array_add"] = lambda a0, a1, b0, b1: list((_arr(a0, a1) + _arr(b0, b1)).arr)
IMPL_EXTRA["array_sub"] = lambda a0, a1, b0, b1: list((_arr(a0, a1) - _arr(b0, b1)).arr)
IMPL_EXTRA["array_adds"] = lambda a0, a1, s: list((_arr(a0, a1) + s).arr)
IMPL_EXTRA["array_scale"] = lambda a0, a1, s: list((s * _arr(a0, a1)).arr)
IMPL_EXTRA["array_ite"] = lambda c, a0, a1, b0, b1: list(H.branching.if_then_else(c, _arr(a0, a1), _arr(b0, b1)).arr)
IMPL.update(IMPL_EXTRA)
REF["array_add"] = lambda a0, a1, b0, b1: [a0 + b0, a1 + b1]
REF["array_sub"] = lambda a0, a1, b0, b1: [a0 - b0, a1 - b1]
REF["array_adds"] = lambda a0, a1, s: [a0 + s, a1 + s]
REF["array_scale"] = lambda a0, a1, s: [a0 * s, a1 * s]
REF["array_ite"] = lambda c, a0, a1, b0, b1: [a0, a1] if _i(c) else [b0, b1]
REF["pack_intmod"] = _assert(lambda m, v: 0 <= v < 2 ** ((m - 1).bit_length()))     # packing a secret declares it a bitlen(m)-bit value
REF["array_assert_eq"] = _assert(lambda a0, a1, b0, b1: a0 == b0 and a1 == b1)
REF["array_get"] = lambda a0, a1, a2, i: [a0, a1, a2][i] if 0 <= i < 3 else (_ for _ in ()).throw(RefRaise())
REF["array_set"] = lambda a0, a1, a2, i, v: [v if k == i else x for k, x in enumerate([a0, a1, a2])] if 0 <= i < 3 else (_ for _ in ()).throw(RefRaise())

BINARY_INT = ["add", "sub", "mul", "truediv", "floordiv", "mod", "divmod", "pow", "lshift",
              "rshift", "and", "or", "xor", "lt", "le", "eq", "ne", "gt", "ge"]
UNARY_INT = ["neg", "pos", "abs", "invert", "check_zero", "check_nonzero", "check_positive",
             "bits_roundtrip", "tobool"]
ASSERT2 = ["assert_lt", "assert_le", "assert_eq", "assert_ne", "assert_gt", "assert_ge"]
ASSERT1 = ["assert_zero", "assert_nonzero", "assert_positive"]
BINARY_BOOL = ["and", "or", "xor", "eq", "ne", "lt", "le", "gt", "ge", "add", "sub", "mul", "pow"]
UNARY_BOOL = ["invert", "neg", "pos", "abs", "check_zero"]
VALUE_OPS = set(BINARY_INT + UNARY_INT + ["if_then_else", "if_else", "from_bits3", "array_add", "array_sub", "array_adds", "array_scale", "array_ite"])


def arity(name):
    if name in ("if_then_else", "if_else", "assert_range", "from_bits3"):
        return 3
    if name in BINARY_INT or name in ASSERT2:
        return 2
    return 1


# ----------------------------------------------------------------------------------------------
# no-raise domain (narrowest reading of "documented domain"), on reference values

def _rng(n):
    return -(2 ** (n - 1) - 1), 2 ** (n - 1) - 1


def in_domain(name, args, n):
    """args: reference operand values. True iff the library must not raise here."""
    lo, hi = _rng(n)
    ints = [_i(a) for a in args]
    if any(not (lo <= a <= hi) for a in ints):
        return False
    anyb = any(_isb(a) for a in args)
    if name in ("add", "sub", "mul", "neg", "pos", "from_bits3", "array_add", "array_sub", "array_adds", "array_scale", "array_ite"):
        return True
    if name in ("lt", "le", "eq", "ne", "gt", "ge"):
        if anyb and any(a not in (0, 1) for a in ints):
            return False    # boolean compared with a non-boolean value: conversion may refuse
        return True
    if anyb and name in ("and", "or", "xor"):
        return all(a in (0, 1) for a in ints)
    if name == "invert":
        return _isb(args[0]) or ints[0] >= 0
    if name in ("abs", "check_zero", "check_nonzero", "check_positive"):
        return True
    if name in ("if_then_else", "if_else"):
        return _isb(args[0])
    if name == "tobool":
        return ints[0] in (0, 1)
    if anyb and name != "pow":
        return False
    if name == "truediv":
        return ints[1] != 0 and ints[0] % ints[1] == 0
    if name in ("floordiv", "mod", "divmod"):
        return ints[1] != 0
    if name == "pow":
        if _isb(args[1]):
            return False
        if not (0 <= ints[1] < n):
            return False
        return lo <= ints[0] ** ints[1] <= hi
    if name == "lshift":
        return 0 <= ints[1] < n and lo <= (ints[0] << ints[1]) <= hi
    if name == "rshift":
        return ints[0] >= 0 and 0 <= ints[1] < n
    if name in ("and", "or", "xor"):
        return ints[0] >= 0 and ints[1] >= 0
    if name == "bits_roundtrip":
        return ints[0] >= 0
    return False


# ----------------------------------------------------------------------------------------------
# expression helpers

def expr_ops(e, out=None):
    if out is None:
        out = []
    if e[0] == "op":
        for s in e[2:]:
            expr_ops(s, out)
        out.append(e[1])
    return out


def expr_str(e, kinds):
    if e[0] == "in":
        return "%s%d" % (kinds[e[1]], e[1])
    return "%s(%s)" % (e[1], ", ".join(expr_str(s, kinds) for s in e[2:]))


def ref_input(kind, v):
    return RB(v) if kind == "B" else v


def ref_eval(e, kinds, vals, n=None, dom=None):
    """Reference value of an expression.  Raises RefRaise / RefAny.  If `dom` is a list it
    receives one boolean per operation application: inside the no-raise domain?"""
    if e[0] == "in":
        return ref_input(kinds[e[1]], vals[e[1]])
    args = [ref_eval(s, kinds, vals, n, dom) for s in e[2:]]
    if dom is not None:
        dom.append(in_domain(e[1], args, n))
    return REF[e[1]](*args)


def ref_plain(v):
    """Reference value in the same shape as harness.plain() gives for library results."""
    if isinstance(v, tuple):
        return tuple(ref_plain(x) for x in v)
    if isinstance(v, list):
        return [ref_plain(x) for x in v]
    if v is None:
        return None
    return int(v)


def ref_steps(e, kinds, vals, n):
    """Post-order list of reference steps [(op, args, kind, value, in_domain)], kind in
    value|raise|any; evaluation stops at the first step that has no value."""
    steps = []

    class Stop(Exception):
        pass

    def go(x):
        if x[0] == "in":
            return ref_input(kinds[x[1]], vals[x[1]])
        args = [go(s) for s in x[2:]]
        dom = in_domain(x[1], args, n)
        try:
            if x[1] == "pow" and abs(_i(args[0])) > 1 and _i(args[1]) > 4096:
                raise RefAny
            v = REF[x[1]](*args)
        except RefRaise:
            steps.append((x[1], args, "raise", None, dom))
            raise Stop
        except RefAny:
            steps.append((x[1], args, "any", None, dom))
            raise Stop
        steps.append((x[1], args, "value", v, dom))
        return v

    try:
        go(e)
    except Stop:
        pass
    return steps


def signs(args):
    return "".join("0" if _i(a) == 0 else ("+" if _i(a) > 0 else "-") for a in args)
