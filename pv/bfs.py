"""E1 breadth-first search with state de-duplication over operation SEQUENCES (depth >= 3).

State  = register file of live API objects + mode (ignore_errors flag, stack of open guards).
Event  = one public API call on registers / literals (result appended as a new register), a mode
         switch (ignore_errors on/off), entering / leaving a guarded region; a call that raises is
         caught (as a user's try/except would) and exploration continues from the state it left.
Live objects cannot be copied: every history is re-executed from a clean state.
Canonical state (merge key) = (type, value) of every register + ignore flag + guard values.
Two histories reaching the same canonical state have the same futures for the per-step oracles
(library operations read only value, type and mode of their operands); this is CHECKED, not assumed:
for every merged state a second representative history is kept and expanded too, and the outcomes of
all events from both representatives must coincide (differential oracle, no hand-written expectation).
"""
import itertools

from . import harness as H
from . import ops as O

BIN = ["add", "sub", "mul", "truediv", "floordiv", "mod", "lt", "le", "eq", "ne", "and", "xor", "rshift", "lshift", "pow"]
UN = ["neg", "abs", "check_zero", "check_positive", "bits_roundtrip", "invert"]
LITS = [0, 1, 2, -1]


def events(nregs, guard_depth, ign, small):
    ev = []
    srcs = [("r", i) for i in range(max(0, nregs - 2), nregs)] + [("k", v) for v in (LITS[:2] if small else LITS)]
    for name in (BIN[:9] if small else BIN):
        for a in srcs:
            for b in srcs:
                if a[0] == "k" and b[0] == "k":
                    continue
                ev.append(("op", name, a, b))
    for name in (UN[:3] if small else UN):
        for a in srcs:
            if a[0] == "r":
                ev.append(("op", name, a))
    if nregs >= 2:
        ev.append(("ite", ("r", nregs - 1), ("r", nregs - 2)))
    if guard_depth == 0:
        ev.append(("ign", not ign))      # the user's switch is only toggled outside guarded regions
    if guard_depth < 2:
        ev.append(("enter", 0))
        ev.append(("enter", 1))
    if guard_depth > 0:
        ev.append(("leave",))
    return ev


class Machine:
    """Executes a history on the real code, mirroring it on plain integers."""

    def __init__(self, init, n, p):
        H.R.p = p
        H.reset(bitlength=n, resolution=1)
        self.rt = H.rt
        self.regs = [self.rt.PrivVal(v) for v in init]
        self.ref = [v for v in init]            # reference values (None = unknown after an error path)
        self.guards = []                        # (backup, value)
        self.ign = False
        self.problems = []
        self.p = p
        self.n = n

    def eff(self):
        return all(v == 1 for _, v in self.guards)

    def src(self, s):
        return (self.regs[s[1]], self.ref[s[1]]) if s[0] == "r" else (s[1], s[1])

    def step(self, e):
        """Apply one event.  Returns a short outcome tuple (used by the differential oracle)."""
        rt = self.rt
        kind = e[0]
        c0 = len(H.R.cons)
        if kind == "ign":
            self.ign = e[1]
            rt.ignore_errors(e[1] or not self.eff())
            return ("ign", e[1])
        if kind == "enter":
            try:
                g = rt.PrivVal(e[1])
                bak = rt.add_guard(g)
                self.guards.append((bak, e[1]))
                return ("enter", e[1])
            except Exception as ex:  # noqa: BLE001
                return ("enter-refused", type(ex).__name__)
        if kind == "leave":
            bak, _ = self.guards.pop()
            rt.restore_guard(bak)
            # nothing is re-synchronised here: if the region leaves the error-ignoring mode (or the
            # guard) behind, the following calls run in the wrong mode and the oracles see it
            return ("leave",)
        try:
            if kind == "ite":
                (c, cr), (a, ar) = self.src(e[1]), self.src(e[2])
                cond = c if isinstance(c, H.boolean.LinCombBool) else (c == 1)
                res = H.branching.if_then_else(cond, a, 5)
                want = None if (cr is None or ar is None) else (ar if (cr == 1) else 5)
            else:
                args = [self.src(s) for s in e[2:]]
                res = O.IMPL[e[1]](*[a for a, _ in args])
                refs = [r for _, r in args]
                want = None
                if all(r is not None for r in refs):
                    try:
                        want = O.ref_plain(O.REF[e[1]](*[O.RB(r) if isinstance(a, H.boolean.LinCombBool) else r for (a, _), r in zip(args, refs)]))
                    except (O.RefRaise, O.RefAny):
                        want = None
                    except Exception:  # noqa: BLE001
                        want = None
        except Exception as ex:  # noqa: BLE001 - aborted call: the state it leaves behind is explored further
            bad = H.R.unsatisfied(c0)
            if bad and not self.ign and self.eff():
                self.problems.append(("unsat-left-by-aborted-call", e, "constraints %s" % bad[:2]))
            return ("raise", type(ex).__name__)
        checking = not self.ign and self.eff()
        bad = H.R.unsatisfied(c0)
        if bad and not self.ign:
            self.problems.append(("unsat", e, "constraints %s emitted by this call are not satisfied" % bad[:2]))
        mm = H.value_wire_mismatches(res)
        if mm:
            self.problems.append(("value!=wire", e, "value %s wire %s" % mm[0]))
        got = H.plain(res)
        if checking and want is not None and got != want and not isinstance(got, tuple):
            cong = isinstance(got, int) and isinstance(want, int) and (got - want) % self.p == 0
            from .opseq import arg_kinds
            extra = {"kinds": arg_kinds([a for a, _ in args]) if kind == "op" else "ite",
                     "signs": O.signs([r for r in refs]) if kind == "op" else ""}
            self.problems.append(("wrong-value-congruent-mod-p" if cong else "wrong-value", e,
                                  "returned %r, plain Python gives %r" % (got, want), extra))
        if isinstance(res, (H.rt.LinComb, H.boolean.LinCombBool)):
            self.regs.append(res)
            self.ref.append(want if (checking and isinstance(want, int)) else (got if isinstance(got, int) and checking else None))
        return ("ok", repr(got))

    def key(self):
        regs = tuple((type(r).__name__, r.value if hasattr(r, "value") else r.lc.value) for r in self.regs)
        rt = self.rt
        # the REAL mode triple of the library is part of the state (not only the driver's view of it)
        real = (bool(rt._ignore_errors), None if rt.guard is None else rt.guard.value, rt.LinComb.ONE is rt.LinComb.ONE_SAFE)
        return (regs, self.ign, tuple(v for _, v in self.guards), real)

    def close(self):
        while self.guards:
            bak, _ = self.guards.pop()
            self.rt.restore_guard(bak)
        self.rt.ignore_errors(False)
        if not H.triple_clean():
            self.problems.append(("state-not-clean-at-end", ("end",), "guard state not restored"))


def run_history(init, hist, n, p):
    m = Machine(init, n, p)
    outs = []
    for e in hist:
        outs.append(m.step(e))
    key = m.key()
    nregs, gd, ign = len(m.regs), len(m.guards), m.ign
    too_big = any(abs(r.value if hasattr(r, "value") else r.lc.value) > 2 ** (2 * n + 2) for r in m.regs)
    m.close()
    return m.problems, outs, key, (nregs, gd, ign), too_big


def explore(init, depth, n, p, small):
    """BFS from one initial register file.  Returns stats, violations."""
    st = {"histories": 0, "transitions": 0, "states": 0, "merged": 0, "differential_pairs": 0, "cap_hits": 0}
    viols = {}
    seen = {}            # key -> [representative histories (<= 2)]
    frontier = [((), (len(init), 0, False))]
    seen[None] = None

    def report(klass, hist, e, text, extra=None):
        sig = {"klass": klass, "op": e[1] if e[0] == "op" else e[0], "depth": len(hist), "via": "sequence-search"}
        if extra:
            sig.update(extra)
        k = repr(sorted(sig.items()))
        if k not in viols:
            viols[k] = {"sig": sig, "count": 0, "what": "registers %s, history %s: %s" % (list(init), list(hist), text),
                        "case": {"init": list(init), "hist": [list(x) for x in hist], "n": n, "p": p}}
        viols[k]["count"] += 1

    outcome_of = {}      # key of predecessor state -> {event: outcome} from the first representative
    for d in range(depth):
        nxt = []
        for hist, (nregs, gd, ign) in frontier:
            pk = None
            omap = {}
            for e in events(nregs, gd, ign, small):
                h2 = hist + (e,)
                problems, outs, key, shape, too_big = run_history(init, h2, n, p)
                st["histories"] += 1
                st["transitions"] += len(h2)
                for pr in problems:
                    report(pr[0], h2, pr[1], pr[2], pr[3] if len(pr) > 3 else None)
                omap[e] = outs[-1]
                if too_big:
                    st["cap_hits"] += 1
                    continue
                reps = seen.get(key)
                if reps is None:
                    seen[key] = [h2]
                    nxt.append((h2, shape))
                else:
                    st["merged"] += 1
                    if len(reps) == 1 and d + 1 < depth:
                        reps.append(h2)
                        nxt.append((h2, shape))          # second representative: expanded too
            outcome_of[hist] = omap
        frontier = nxt
    st["states"] = len(seen) - 1
    # differential oracle: both representatives of a merged state must have identical outcome maps
    for key, reps in seen.items():
        if reps and len(reps) == 2 and reps[0] in outcome_of and reps[1] in outcome_of:
            st["differential_pairs"] += 1
            a, b = outcome_of[reps[0]], outcome_of[reps[1]]
            for e in a:
                if e in b and a[e] != b[e]:
                    report("same-state-different-future", reps[1], e,
                           "event %s gives %s after %s but %s after %s (both histories reach the same canonical state)"
                           % (list(e), a[e], list(reps[0]), b[e], list(reps[1])))
                    break
    return st, viols
